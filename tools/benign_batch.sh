#!/bin/bash
# benign_batch.sh <log> <id-k>...: evaluate property-preserving changes one after the other (run from a snapshot of /verif)
log=$1; shift
here="$(cd "$(dirname "$0")/.." && pwd)"
cd "$here"
for s in "$@"; do
  echo "== $s" >> $log
  timeout 5000 nice -n 19 tools/benign_eval.py $BENIGN_FLAGS benign/$s ${s%%-*} < /dev/null 2>&1 | tail -14 >> $log
done
echo DONE >> $log
