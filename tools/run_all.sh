#!/bin/bash
# run_all.sh <tier> [seed]: run every check sequentially, print one line per check
tier="${1:-quick}"; seed="${2:-0}"
cd /verif
for i in $(seq -w 1 20); do
  id="C$i"
  start=$(date +%s)
  out=$(VERIF_SEED=$seed timeout 3600 ./run.sh $id $tier < /dev/null 2>&1)
  rc=$?
  end=$(date +%s)
  viol=$(echo "$out" | grep -c "^VIOLATION")
  known=$(echo "$out" | grep -c "^KNOWN-FINDING")
  echo "$id rc=$rc viol=$viol known=$known wall=$((end-start))s $(echo "$out" | tail -1 | cut -c1-160)"
done
