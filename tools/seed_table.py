#!/usr/bin/env python3
"""Rewrites the seeded-change table in DESIGN.md (between the SEED-TABLE markers) from seeded/*/meta.json."""
import glob
import json
import os
import re

rows = ["| seed | target | what was changed (short) | needs | tests | demo (with/without) | own check | also run |", "|---|---|---|---|---|---|---|---|"]
for d in sorted(glob.glob("/verif/seeded/*/")):
    name = os.path.basename(d[:-1])
    m = json.load(open(d + "meta.json"))
    c = m.get("confirmed", {})
    prop = name.split("-")[0]
    checks = c.get("checks", {})
    own = checks.get(prop, {})
    verdict = own.get("verdict", "?")
    if verdict == "caught":
        verdict = "caught: " + ", ".join(s.replace("signature=", "") for s in own.get("signatures", [])[:2])
    elif m.get("verdict_note"):
        verdict = "not reported (accepted, see text)"
    others = "; ".join(f"{k}: {v['verdict']}" for k, v in checks.items() if k != prop) or (m.get("also", ""))
    summary = re.sub(r"\s+", " ", (m.get("summary") or ""))[:150]
    needs = re.sub(r"\s+", " ", (m.get("needs") or ""))[:120]
    rows.append(f"| {name} | {prop} | {summary} | {needs} | {'pass' if c.get('tests_pass_with_change') else '?'} | "
                f"{c.get('demo_exit_with_change')}/{c.get('demo_exit_unchanged')} | {verdict} | {others} |")
text = open("/verif/DESIGN.md").read()
start, end = "<!-- SEED-TABLE-START -->", "<!-- SEED-TABLE-END -->"
i, j = text.index(start) + len(start), text.index(end)
text = text[:i] + "\n" + "\n".join(rows) + "\n" + text[j:]
open("/verif/DESIGN.md", "w").write(text)
print(len(rows) - 2, "rows")
