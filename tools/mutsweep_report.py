#!/usr/bin/env python3
"""Summarise tools/mutsweep.py results: mutation/summary.json and mutation/triage.md.

usage: tools/mutsweep_report.py <out.jsonl>...
Survivors are classified with the rules in mutation/triage_rules.json: a list of
{"file": ..., "match": <substring of the source line> | null, "lines": [lo, hi] | null, "desc": <substring of the mutation> | null,
 "class": "equivalent" | "outside-statements" | "covered-by-unmapped-check" | "gap-closed" | "gap-open", "why": ...};
the first matching rule wins; survivors without a rule are listed as "not triaged".
"""
import collections
import json
import sys
from pathlib import Path

root = Path(__file__).resolve().parents[1]
rows = {}
for path in sys.argv[1:]:
    for line in Path(path).read_text().splitlines():
        r = json.loads(line)
        rows[(r["file"], r["start"], r["end"], r["new"])] = r  # later files override earlier ones
rows = list(rows.values())
rules = json.loads((root / "mutation" / "triage_rules.json").read_text())


def classify(r):
    for rule in rules:
        if rule["file"] != r["file"]:
            continue
        if rule.get("match") and rule["match"] not in r["src_line"]:
            continue
        if rule.get("lines") and not (rule["lines"][0] <= r["line"] <= rule["lines"][1]):
            continue
        if rule.get("desc") and rule["desc"] not in r["desc"]:
            continue
        return rule["class"], rule["why"]
    return "not triaged", ""


summary = collections.OrderedDict()
survivors = []
for r in sorted(rows, key=lambda r: (r["file"], r["line"], r["desc"])):
    s = summary.setdefault(r["file"], {"mutants": 0, "killed_by_tests": 0, "caught_by_checks": {}, "harness_failed": 0, "survived": 0, "survivor_classes": {}})
    s["mutants"] += 1
    v = r["verdict"]
    if v == "killed-by-tests":
        s["killed_by_tests"] += 1
    elif v.startswith("caught:"):
        s["caught_by_checks"][v[7:]] = s["caught_by_checks"].get(v[7:], 0) + 1
    else:
        if v.startswith("check-exit"):
            s["harness_failed"] += 1
        else:
            s["survived"] += 1
        cls, why = classify(r)
        s["survivor_classes"][cls] = s["survivor_classes"].get(cls, 0) + 1
        survivors.append((r, cls, why))
total = {"mutants": sum(s["mutants"] for s in summary.values()), "killed_by_tests": sum(s["killed_by_tests"] for s in summary.values()),
         "caught_by_checks": sum(sum(s["caught_by_checks"].values()) for s in summary.values()),
         "survived_or_harness_failed": len(survivors)}
classes = collections.Counter(cls for _, cls, _ in survivors)
(root / "mutation" / "summary.json").write_text(json.dumps({"total": total, "survivor_classes": dict(classes), "per_file": summary}, indent=1) + "\n")
lines = ["# Mutation sweep: survivors and their verdicts", "",
         f"{total['mutants']} mutants; {total['killed_by_tests']} killed by the repository's tests; of the {total['mutants'] - total['killed_by_tests']} the tests let through, "
         f"{total['caught_by_checks']} are reported by a mapped check (quick tier) and {len(survivors)} are not.", "",
         "Classes: " + ", ".join(f"{k}: {v}" for k, v in sorted(classes.items())), ""]
current = None
for r, cls, why in survivors:
    if r["file"] != current:
        current = r["file"]
        lines += ["", f"## {current}", "", "| line | mutation | source line | verdict | class | why |", "|---|---|---|---|---|---|"]
    src = r["src_line"][:90].replace("|", "\\|")
    lines.append(f"| {r['line']} | {r['desc']} | `{src}` | {r['verdict']} | {cls} | {why} |")
(root / "mutation" / "triage.md").write_text("\n".join(lines) + "\n")
print(json.dumps(total), dict(classes))
