#!/venv/bin/python
"""Systematic mutation sweep: which small source changes survive the repository's tests, and do the checks catch them?

usage: tools/mutsweep.py gen  <rel file under src/ropt> ...          -> prints the number of mutants per file
       tools/mutsweep.py run  --out <jsonl> [--jobs N] [--props C01,C02 | --auto] <rel file> ...

Stage 1 (parallel): every mutant is applied to a scratch copy of /repo (outside /repo and /verif) and the pinned
test-suite is run with -x; mutants that fail a test are dropped ("killed-by-tests").
Stage 2 (sequential, checks use all cores): for each survivor the quick tier of the checks mapped to the file is run with
ROPT_SRC=<scratch>/src --no-evidence until one reports a VIOLATION ("caught:<id>"); otherwise "survived".
Nothing is written to /repo; scratch copies are removed as soon as a mutant is done.  Survivors need a human verdict
(equivalent / outside every statement / a gap in a check); tools/mutsweep_notes.json records those verdicts.
"""
from __future__ import annotations

import argparse
import ast
import json
import os
import re
import shutil
import subprocess
import sys
import tempfile
import time
from concurrent.futures import ThreadPoolExecutor
from pathlib import Path

REPO = Path("/repo")
SRC = REPO / "src" / "ropt"
WORK = Path("/tmp/mutsweep")
VERIF = Path(__file__).resolve().parents[1]

FILE_PROPS = {
    "ensemble_evaluator/_ensemble_evaluator.py": ["C06", "C02", "C03", "C01", "C09", "C10", "C17", "C04", "C05", "C14", "C16", "C07"],
    "ensemble_evaluator/_function.py": ["C01", "C03", "C04", "C05"],
    "ensemble_evaluator/_gradient.py": ["C02", "C03", "C14", "C10", "C09", "C17"],
    "ensemble_evaluator/_evaluator_results.py": ["C06", "C03", "C01", "C14", "C07", "C02"],
    "ensemble_evaluator/_utils.py": ["C01", "C02"],
    "plugins/realization_filter/default.py": ["C04", "C05"],
    "plugins/function_estimator/default.py": ["C01", "C02", "C03"],
    "plugins/optimizer/scipy.py": ["C07", "C08", "C09", "C14", "C16"],
    "plugins/optimizer/utils.py": ["C08", "C07", "C13"],
    "plugins/optimizer/external.py": ["C20"],
    "optimization/_optimizer.py": ["C07", "C14", "C15", "C09", "C12"],
    "plan/_plan.py": ["C15", "C12", "C16"],
    "plan/_basic_optimizer.py": ["C12", "C15"],
    "plan/_context.py": ["C15", "C16"],
    "plugins/plan/_tracker.py": ["C12", "C13"],
    "plugins/plan/_utils.py": ["C12", "C13"],
    "plugins/plan/_store.py": ["C12"],
    "plugins/plan/evaluator.py": ["C12", "C15", "C14"],
    "plugins/plan/optimizer.py": ["C15", "C12", "C16", "C14"],
    "plugins/plan/default.py": ["C12", "C15", "C19"],
    "plugins/plan/base.py": ["C15", "C12"],
    "config/enopt/_enopt_config.py": ["C18", "C10", "C11"],
    "config/enopt/_gradient_config.py": ["C18", "C10", "C09", "C11"],
    "config/enopt/_variables_config.py": ["C18", "C09", "C11"],
    "config/enopt/_realizations_config.py": ["C18", "C03", "C14"],
    "config/enopt/_linear_constraints_config.py": ["C18", "C13", "C11"],
    "config/enopt/_nonlinear_constraints_config.py": ["C18", "C13", "C11"],
    "config/enopt/_objective_functions_config.py": ["C18", "C01", "C11"],
    "config/enopt/_optimizer_config.py": ["C18", "C08"],
    "config/enopt/_sampler_config.py": ["C18", "C17"],
    "config/enopt/_realization_filter_config.py": ["C18", "C04"],
    "config/enopt/_function_estimator_config.py": ["C18", "C01"],
    "config/utils.py": ["C18", "C10"],
    "transforms/base.py": ["C11", "C13"],
    "transforms/variable_scaler.py": ["C11", "C13", "C12"],
    "transforms/_transforms.py": ["C11"],
    "plugins/sampler/scipy.py": ["C17", "C16"],
    "plugins/sampler/base.py": ["C17"],
    "plugins/_manager.py": ["C19"],
    "results/_constraint_info.py": ["C13", "C11"],
    "results/_function_results.py": ["C11", "C12", "C13"],
    "results/_gradient_results.py": ["C11", "C02"],
    "results/_functions.py": ["C11", "C01"],
    "results/_gradients.py": ["C11", "C02"],
    "results/_function_evaluations.py": ["C11", "C06"],
    "results/_gradient_evaluations.py": ["C11", "C06", "C10"],
    "results/_realizations.py": ["C06", "C01", "C03"],
    "results/_results.py": ["C11", "C06"],
    "results/_utils.py": ["C06", "C18"],
    "results/_result_field.py": ["C06"],
    "evaluator/_evaluator.py": ["C06"],
    "enums.py": ["C10", "C14", "C15"],
}

CMP = {ast.Lt: ("<", "<="), ast.LtE: ("<=", "<"), ast.Gt: (">", ">="), ast.GtE: (">=", ">"), ast.Eq: ("==", "!="),
       ast.NotEq: ("!=", "=="), ast.Is: ("is", "is not"), ast.IsNot: ("is not", "is"), ast.In: ("in", "not in"),
       ast.NotIn: ("not in", "in")}
BIN = {ast.Add: ("+", "-"), ast.Sub: ("-", "+"), ast.Mult: ("*", "/"), ast.Div: ("/", "*")}
NAME_SWAPS = {"logical_or": "logical_and", "logical_and": "logical_or", "any": "all", "all": "any", "min": "max", "max": "min",
              "minimum": "maximum", "maximum": "minimum", "argmin": "argmax", "argmax": "argmin", "zeros": "ones",
              "isnan": "isfinite", "nanmin": "nanmax", "nanmax": "nanmin", "floor": "ceil", "ceil": "floor"}


class Gen(ast.NodeVisitor):
    def __init__(self, text: str) -> None:
        self.text = text
        self.lines = text.splitlines(keepends=True)
        self.starts = [0]
        for line in self.lines:
            self.starts.append(self.starts[-1] + len(line.encode()))
        self.raw = text.encode()
        self.out: list[tuple[int, int, str, str, int]] = []
        self.skip_depth = 0

    def pos(self, lineno: int, col: int) -> int:
        return self.starts[lineno - 1] + col

    def span(self, node: ast.AST) -> tuple[int, int]:
        return self.pos(node.lineno, node.col_offset), self.pos(node.end_lineno, node.end_col_offset)

    def add(self, start: int, end: int, new: str, desc: str, lineno: int) -> None:
        if self.skip_depth == 0:
            self.out.append((start, end, new, desc, lineno))

    def between(self, a: ast.AST, b: ast.AST, old: str, new: str, desc: str) -> None:
        start, end = self.span(a)[1], self.span(b)[0]
        gap = self.raw[start:end].decode()
        m = re.search(r"(?<![=!<>])" + re.escape(old) + r"(?![=])" if old in ("<", ">", "==", "!=", "<=", ">=") else re.escape(old), gap)
        if m:
            self.add(start + len(gap[: m.start()].encode()), start + len(gap[: m.end()].encode()), new, desc, a.end_lineno)

    # ---- nodes that are skipped entirely
    def visit_Raise(self, node: ast.Raise) -> None:
        return

    def visit_Assert(self, node: ast.Assert) -> None:
        return

    def visit_AnnAssign(self, node: ast.AnnAssign) -> None:
        if node.value is not None:
            self.visit(node.value)

    def visit_FunctionDef(self, node: ast.FunctionDef) -> None:
        for stmt in node.body:
            self.visit(stmt)

    visit_AsyncFunctionDef = visit_FunctionDef

    def visit_If(self, node: ast.If) -> None:
        test = node.test
        if isinstance(test, ast.Name) and test.id == "TYPE_CHECKING":
            return
        if isinstance(test, (ast.Name, ast.Attribute, ast.Call, ast.Subscript)):
            s, e = self.span(test)
            self.add(s, e, f"not ({self.raw[s:e].decode()})", "if-negate", test.lineno)
        self.generic_visit(node)

    def visit_Expr(self, node: ast.Expr) -> None:
        if isinstance(node.value, ast.Constant) and isinstance(node.value.value, str):
            return
        self.generic_visit(node)

    def visit_Assign(self, node: ast.Assign) -> None:
        if any(isinstance(t, ast.Name) and t.id in ("msg", "__all__") for t in node.targets):
            return
        self.generic_visit(node)

    def visit_Compare(self, node: ast.Compare) -> None:
        left = node.left
        for op, right in zip(node.ops, node.comparators):
            if type(op) in CMP:
                old, new = CMP[type(op)]
                self.between(left, right, old, new, f"cmp {old}->{new}")
            left = right
        self.generic_visit(node)

    def visit_BoolOp(self, node: ast.BoolOp) -> None:
        old, new = ("and", "or") if isinstance(node.op, ast.And) else ("or", "and")
        for a, b in zip(node.values, node.values[1:]):
            self.between(a, b, old, new, f"bool {old}->{new}")
        self.generic_visit(node)

    def visit_BinOp(self, node: ast.BinOp) -> None:
        stringy = any(isinstance(x, (ast.JoinedStr,)) or (isinstance(x, ast.Constant) and isinstance(x.value, str)) for x in (node.left, node.right))
        if type(node.op) in BIN and not stringy:
            old, new = BIN[type(node.op)]
            self.between(node.left, node.right, old, new, f"bin {old}->{new}")
        self.generic_visit(node)

    def visit_AugAssign(self, node: ast.AugAssign) -> None:
        if type(node.op) in BIN:
            old, new = BIN[type(node.op)]
            self.between(node.target, node.value, old + "=", new + "=", f"aug {old}=->{new}=")
        self.generic_visit(node)

    def visit_UnaryOp(self, node: ast.UnaryOp) -> None:
        s, e = self.span(node)
        os_, oe = self.span(node.operand)
        if isinstance(node.op, ast.Not):
            self.add(s, os_, "", "drop-not", node.lineno)
        elif isinstance(node.op, ast.USub) and not isinstance(node.operand, ast.Constant):
            self.add(s, os_, "", "drop-minus", node.lineno)
        elif isinstance(node.op, ast.Invert):
            self.add(s, os_, "", "drop-invert", node.lineno)
        self.generic_visit(node)

    def visit_Constant(self, node: ast.Constant) -> None:
        s, e = self.span(node)
        v = node.value
        if isinstance(v, bool):
            self.add(s, e, str(not v), f"const {v}->{not v}", node.lineno)
        elif isinstance(v, int):
            self.add(s, e, str(v + 1), f"const {v}->{v + 1}", node.lineno)
            if v == 1:
                self.add(s, e, "0", "const 1->0", node.lineno)
            if v > 1:
                self.add(s, e, str(v - 1), f"const {v}->{v - 1}", node.lineno)
        elif isinstance(v, float):
            self.add(s, e, repr(v + 1.0 if v in (0.0, 1.0, -1.0) else v * 2.0 if abs(v) >= 1e-3 else v * 1e6), f"const float {v}", node.lineno)
        elif v is None:
            return

    def visit_Call(self, node: ast.Call) -> None:
        f = node.func
        if isinstance(f, ast.Attribute) and f.attr == "copy" and not node.args and not node.keywords:
            s, e = self.span(node)
            rs, re_ = self.span(f.value)
            self.add(s, e, self.raw[rs:re_].decode(), "drop-copy", node.lineno)
        name = f.attr if isinstance(f, ast.Attribute) else f.id if isinstance(f, ast.Name) else None
        if name in NAME_SWAPS:
            s, e = self.span(f)
            whole = self.raw[s:e].decode()
            self.add(s, e, whole[: len(whole) - len(name)] + NAME_SWAPS[name], f"call {name}->{NAME_SWAPS[name]}", node.lineno)
        for kw in node.keywords:
            if kw.arg == "axis" and isinstance(kw.value, ast.Constant) and isinstance(kw.value.value, int):
                s, e = self.span(kw.value)
                v = kw.value.value
                self.add(s, e, {0: "1", 1: "0", -1: "0"}.get(v, str(v - 1)), f"axis {v}", node.lineno)
            if kw.arg in ("copy", "keepdims") and isinstance(kw.value, ast.Constant):
                pass
        self.generic_visit(node)

    def visit_keyword(self, node: ast.keyword) -> None:
        if node.arg == "axis":
            return  # handled above
        self.generic_visit(node)

    def visit_Subscript(self, node: ast.Subscript) -> None:
        # skip type subscripts (Optional[...], NDArray[...])
        if isinstance(node.value, ast.Name) and node.value.id[:1].isupper():
            return
        self.generic_visit(node)

    def visit_Return(self, node: ast.Return) -> None:
        self.generic_visit(node)


def mutants(rel: str) -> list[dict]:
    text = (SRC / rel).read_text()
    gen = Gen(text)
    gen.visit(ast.parse(text))
    out, seen = [], set()
    for start, end, new, desc, lineno in gen.out:
        key = (start, end, new)
        if key in seen:
            continue
        seen.add(key)
        mutated = gen.raw[:start] + new.encode() + gen.raw[end:]
        try:
            ast.parse(mutated.decode())
        except SyntaxError:
            continue
        out.append({"file": rel, "line": lineno, "desc": desc, "start": start, "end": end, "new": new,
                    "old": gen.raw[start:end].decode(), "src_line": gen.lines[lineno - 1].strip()[:120]})
    return out


def make_scratch(mut: dict) -> Path:
    WORK.mkdir(parents=True, exist_ok=True)
    scratch = Path(tempfile.mkdtemp(prefix="m.", dir=WORK))
    subprocess.run(["rsync", "-a", "--exclude", ".git", "--exclude", "__pycache__", "--exclude", "docs",
                    f"{REPO}/", f"{scratch}/"], check=True)
    target = scratch / "src" / "ropt" / mut["file"]
    raw = target.read_bytes()
    target.write_bytes(raw[: mut["start"]] + mut["new"].encode() + raw[mut["end"]:])
    return scratch


def stage1(mut: dict) -> dict:
    scratch = make_scratch(mut)
    try:
        env = dict(os.environ, PYTHONPATH=str(scratch / "src"), PYTHONDONTWRITEBYTECODE="1", OMP_NUM_THREADS="1", OPENBLAS_NUM_THREADS="1")
        t0 = time.time()
        try:
            res = subprocess.run(["/venv/bin/python", "-m", "pytest", "-x", "-q", "-p", "no:cacheprovider", "--timeout=300"], cwd=scratch,
                                 env=env, capture_output=True, text=True, timeout=900, stdin=subprocess.DEVNULL)
            mut["tests"] = "pass" if res.returncode == 0 else "fail"
        except subprocess.TimeoutExpired:
            mut["tests"] = "timeout"
        mut["tests_wall"] = round(time.time() - t0, 1)
    finally:
        shutil.rmtree(scratch, ignore_errors=True)
    return mut


def stage2(mut: dict, props: list[str]) -> dict:
    scratch = make_scratch(mut)
    try:
        mut["checks"] = {}
        mut["verdict"] = "survived"
        for pid in props:
            env = dict(os.environ, ROPT_SRC=str(scratch / "src"), VERIF_FAILFAST="1")
            t0 = time.time()
            try:
                res = subprocess.run([str(VERIF / "run.sh"), pid, "quick", "--no-evidence"], env=env, capture_output=True, text=True,
                                     timeout=1800, stdin=subprocess.DEVNULL)
                rc, out = res.returncode, res.stdout
            except subprocess.TimeoutExpired:
                rc, out = 124, ""
            sigs = [line.strip().split(" ")[0] for line in out.splitlines() if line.strip().startswith("signature=")][:3]
            caught = rc == 1 and "VIOLATION" in out
            mut["checks"][pid] = {"rc": rc, "caught": caught, "signatures": sigs, "wall": round(time.time() - t0, 1)}
            if caught:
                mut["verdict"] = f"caught:{pid}"
                break
            if rc not in (0, 1) or (rc == 1 and not caught):
                # the harness itself failed on the mutated code: remember it, but give the other checks their chance
                mut["verdict"] = f"check-exit-{rc}:{pid}"
                mut["checks"][pid]["tail"] = out[-600:]
    finally:
        shutil.rmtree(scratch, ignore_errors=True)
    return mut


def main() -> int:
    parser = argparse.ArgumentParser()
    parser.add_argument("mode", choices=["gen", "run", "retest"])
    parser.add_argument("files", nargs="*")
    parser.add_argument("--out")
    parser.add_argument("--jobs", type=int, default=14)
    parser.add_argument("--props")
    parser.add_argument("--max-checks", type=int, default=3)
    args = parser.parse_intermixed_args()
    if args.mode == "gen":
        for rel in args.files:
            ms = mutants(rel)
            print(rel, len(ms))
            if os.environ.get("MUT_SHOW"):
                for m in ms:
                    print("  ", m["line"], m["desc"], "|", m["src_line"])
        return 0
    if args.mode == "retest":
        # re-run the mapped checks on every mutant recorded as survived / check-exit in --out (files: optional filter)
        out_path = Path(args.out)
        rows = [json.loads(line) for line in out_path.read_text().splitlines()]
        for m in rows:
            if m["verdict"] == "survived" or m["verdict"].startswith("check-exit"):
                if args.files and m["file"] not in args.files:
                    continue
                props = args.props.split(",") if args.props else FILE_PROPS[m["file"]][: args.max_checks]
                before = m["verdict"]
                stage2(m, props)
                print(f"   {m['file']}:{m['line']} {m['desc']} {before} -> {m['verdict']}   | {m['src_line'][:90]}", flush=True)
                out_path.write_text("".join(json.dumps(r) + "\n" for r in rows))
        return 0
    base = stage1({"file": args.files[0], "start": 0, "end": 0, "new": ""})
    if base["tests"] != "pass":
        print("baseline scratch copy does not pass the test-suite; refusing to sweep")
        return 2
    done = set()
    out_path = Path(args.out)
    if out_path.exists():
        for line in out_path.read_text().splitlines():
            rec = json.loads(line)
            done.add((rec["file"], rec["start"], rec["end"], rec["new"]))
    with out_path.open("a") as out:
        for rel in args.files:
            props = args.props.split(",") if args.props else FILE_PROPS[rel][: args.max_checks]
            ms = [m for m in mutants(rel) if (m["file"], m["start"], m["end"], m["new"]) not in done]
            print(f"== {rel}: {len(ms)} mutants, checks {props}", flush=True)
            with ThreadPoolExecutor(args.jobs) as pool:
                results = list(pool.map(stage1, ms))
            survivors = [m for m in results if m["tests"] == "pass"]
            for m in results:
                if m["tests"] != "pass":
                    m["verdict"] = "killed-by-tests"
                    out.write(json.dumps(m) + "\n")
            out.flush()
            print(f"   tests: {len(results) - len(survivors)} killed, {len(survivors)} pass", flush=True)
            for m in survivors:
                stage2(m, props)
                out.write(json.dumps(m) + "\n")
                out.flush()
                print(f"   {m['file']}:{m['line']} {m['desc']} -> {m['verdict']}   | {m['src_line'][:90]}", flush=True)
    return 0


if __name__ == "__main__":
    sys.exit(main())
