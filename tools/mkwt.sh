#!/bin/bash
# mkwt.sh <name>: scratch git worktree of /repo HEAD under /tmp/wt/<name> (outside /repo and /verif)
set -e
name="$1"
dir="/tmp/wt/$name"
git -C /repo worktree remove --force "$dir" 2>/dev/null || true
rm -rf "$dir"
git -C /repo worktree add -q --detach "$dir" HEAD
cp /repo/src/ropt/version.py "$dir/src/ropt/version.py"
echo "$dir"
