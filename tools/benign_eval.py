#!/usr/bin/env python3
"""Run checks against a property-PRESERVING change (negative control for false alarms).

usage: tools/benign_eval.py <dir with patch.diff demo.py meta.json> [--tier quick] [--all-mapped] <property ids...>

On a scratch copy of /repo outside /repo and /verif (removed afterwards): the patch applies, the baseline test-suite passes
with it, the demo exits 0 with and without it, and every named check must exit 0 without a VIOLATION line.  With
--all-mapped the checks that tools/mutsweep.py maps to the touched files are run as well.  Results go to meta.json
under "confirmed"; a check that reports something is printed as ALARM and needs a human verdict (false alarm of the
check, or the change does break a property after all).
"""
import argparse
import json
import os
import re
import shutil
import subprocess
import sys
import tempfile
import time
from pathlib import Path

sys.path.insert(0, str(Path(__file__).resolve().parent))


def main() -> int:
    parser = argparse.ArgumentParser()
    parser.add_argument("dir")
    parser.add_argument("--tier", default="quick")
    parser.add_argument("--all-mapped", action="store_true")
    parser.add_argument("ids", nargs="*")
    args = parser.parse_args()
    seed = Path(args.dir).resolve()
    patch, demo, meta_path = seed / "patch.diff", seed / "demo.py", seed / "meta.json"
    meta = json.loads(meta_path.read_text()) if meta_path.exists() else {}
    ids = list(args.ids)
    if args.all_mapped:
        from mutsweep import FILE_PROPS
        for rel in re.findall(r"^\+\+\+ b/src/ropt/(\S+)", patch.read_text(), flags=re.M):
            for pid in FILE_PROPS.get(rel, []):
                if pid not in ids:
                    ids.append(pid)
    scratch = Path(tempfile.mkdtemp(prefix="benign.", dir="/tmp"))
    confirmed: dict = {"at": time.strftime("%Y-%m-%d %H:%M:%S"), "repo_head": subprocess.run(
        ["git", "-C", "/repo", "rev-parse", "--short", "HEAD"], capture_output=True, text=True).stdout.strip()}
    try:
        subprocess.run(["rsync", "-a", "--exclude", ".git", "--exclude", "__pycache__", "/repo/", f"{scratch}/"], check=True)
        res = subprocess.run(["patch", "-p1", "-s", "--no-backup-if-mismatch", "-i", str(patch)], cwd=scratch, capture_output=True, text=True)
        confirmed["applies"] = res.returncode == 0
        if res.returncode != 0:
            print("PATCH-FAILED", res.stdout[-500:], res.stderr[-500:])
            return 3
        env = dict(os.environ, PYTHONPATH=str(scratch / "src"), PYTHONDONTWRITEBYTECODE="1")
        res = subprocess.run(["/venv/bin/python", "-m", "pytest", "-q", "-p", "no:cacheprovider", "--timeout=900"],
                             cwd=scratch, env=env, capture_output=True, text=True, stdin=subprocess.DEVNULL)
        confirmed["tests_pass_with_change"] = res.returncode == 0
        print("TESTS", "pass" if res.returncode == 0 else "FAIL", (res.stdout.strip().splitlines() or [""])[-1])
        if demo.exists():
            env_d = dict(env, PATH="/venv/bin:" + os.environ.get("PATH", ""))
            with_change = subprocess.run(["/venv/bin/python", str(demo)], cwd=scratch, env=env_d, capture_output=True, text=True, stdin=subprocess.DEVNULL)
            confirmed["demo_exit_with_change"] = with_change.returncode
            print(f"DEMO with-change exit={with_change.returncode}")
        checks = {}
        for pid in ids:
            env_c = dict(os.environ, ROPT_SRC=str(scratch / "src"))
            t0 = time.time()
            res = subprocess.run([str(Path(__file__).resolve().parents[1] / "run.sh"), pid, args.tier, "--no-evidence"], env=env_c, capture_output=True, text=True, stdin=subprocess.DEVNULL)
            sigs = [line.strip().split(" ")[0] for line in res.stdout.splitlines() if line.strip().startswith("signature=")]
            clean = res.returncode == 0 and "VIOLATION" not in res.stdout
            checks[pid] = {"verdict": "silent" if clean else f"alarm-exit-{res.returncode}", "tier": args.tier, "signatures": sigs[:8],
                           "wall_s": round(time.time() - t0, 1)}
            print(f"{pid}: {'silent' if clean else 'ALARM exit=' + str(res.returncode)} {' '.join(sigs[:4])}")
            if not clean and res.returncode != 1:
                print(res.stdout[-1200:], res.stderr[-1200:])
        confirmed["checks"] = checks
    finally:
        shutil.rmtree(scratch, ignore_errors=True)
    meta["confirmed"] = confirmed
    meta_path.write_text(json.dumps(meta, indent=1) + "\n")
    return 0


if __name__ == "__main__":
    sys.exit(main())
