#!/usr/bin/env python3
"""Confirm a seeded change and run checks against it.

usage: tools/seed_eval.py <seed dir with patch.diff demo.py meta.json> [--tier quick] <property ids...>

Steps (all on a scratch copy of /repo outside /repo and /verif, removed afterwards):
 1. patch applies; 2. baseline test-suite passes with it; 3. demo exits 1 with it and 0 on the unchanged tree;
 4. each named check reports VIOLATION with it.  Results are written into <seed dir>/meta.json under "confirmed".
"""
import argparse
import json
import os
import shutil
import subprocess
import sys
import tempfile
import time
from pathlib import Path


def main() -> int:
    parser = argparse.ArgumentParser()
    parser.add_argument("seed_dir")
    parser.add_argument("--tier", default="quick")
    parser.add_argument("ids", nargs="*")
    args = parser.parse_args()
    seed = Path(args.seed_dir).resolve()
    patch, demo, meta_path = seed / "patch.diff", seed / "demo.py", seed / "meta.json"
    meta = json.loads(meta_path.read_text()) if meta_path.exists() else {}
    scratch = Path(tempfile.mkdtemp(prefix="seed.", dir="/tmp"))
    confirmed: dict = {"at": time.strftime("%Y-%m-%d %H:%M:%S"), "repo_head": subprocess.run(
        ["git", "-C", "/repo", "rev-parse", "--short", "HEAD"], capture_output=True, text=True).stdout.strip()}
    try:
        subprocess.run(["rsync", "-a", "--exclude", ".git", "--exclude", "__pycache__", "/repo/", f"{scratch}/"], check=True)
        res = subprocess.run(["patch", "-p1", "-s", "--no-backup-if-mismatch", "-i", str(patch)], cwd=scratch, capture_output=True, text=True)
        confirmed["applies"] = res.returncode == 0
        if res.returncode != 0:
            print("PATCH-FAILED", res.stdout[-500:], res.stderr[-500:])
            return 3
        # (/venv/bin on PATH: the external optimizer's runner executable lives there)
        env = dict(os.environ, PYTHONPATH=str(scratch / "src"), PYTHONDONTWRITEBYTECODE="1", PATH="/venv/bin:" + os.environ.get("PATH", ""))
        res = subprocess.run(["/venv/bin/python", "-m", "pytest", "-q", "-p", "no:cacheprovider", "--timeout=900"],
                             cwd=scratch, env=env, capture_output=True, text=True)
        last = (res.stdout.strip().splitlines() or [""])[-1]
        confirmed["tests_pass_with_change"] = res.returncode == 0
        print("TESTS", "pass" if res.returncode == 0 else "FAIL", last)
        if demo.exists():
            with_change = subprocess.run(["/venv/bin/python", str(demo)], cwd=scratch, env=env, capture_output=True, text=True)
            env0 = dict(os.environ, PYTHONPATH="/repo/src", PYTHONDONTWRITEBYTECODE="1", PATH="/venv/bin:" + os.environ.get("PATH", ""))
            without = subprocess.run(["/venv/bin/python", str(demo)], cwd="/tmp", env=env0, capture_output=True, text=True)
            confirmed["demo_exit_with_change"] = with_change.returncode
            confirmed["demo_exit_unchanged"] = without.returncode
            print(f"DEMO with-change exit={with_change.returncode} unchanged exit={without.returncode}")
        checks = {}
        for pid in args.ids:
            # fail-fast: stop exploring at the first shard that reports a violation (a seeded change only has to be reported)
            env_c = dict(os.environ, ROPT_SRC=str(scratch / "src"), VERIF_FAILFAST="1")
            t0 = time.time()
            res = subprocess.run(["/verif/run.sh", pid, args.tier, "--no-evidence"], env=env_c, capture_output=True, text=True)
            sigs = [l.strip() for l in res.stdout.splitlines() if l.strip().startswith("signature=")]
            verdict = "caught" if res.returncode == 1 and "VIOLATION" in res.stdout else ("missed" if res.returncode == 0 else f"broken-exit-{res.returncode}")
            checks[pid] = {"verdict": verdict, "tier": args.tier, "signatures": [s.split(" ")[0] for s in sigs][:8], "wall_s": round(time.time() - t0, 1)}
            print(f"{pid}: {verdict.upper()} {' '.join(s.split(' ')[0] for s in sigs[:4])}")
            if verdict.startswith("broken"):
                print(res.stdout[-1500:], res.stderr[-1500:])
        confirmed["checks"] = checks
    finally:
        shutil.rmtree(scratch, ignore_errors=True)
    meta.setdefault("confirmed", {}).update(confirmed) if isinstance(meta.get("confirmed"), dict) else meta.__setitem__("confirmed", confirmed)
    meta_path.write_text(json.dumps(meta, indent=1) + "\n")
    return 0


if __name__ == "__main__":
    sys.exit(main())
