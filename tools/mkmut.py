#!/usr/bin/env python3
"""mkmut.py <out.diff> <relative file> <old text> <new text>  -- make a one-replacement patch against /repo."""
import difflib
import sys
from pathlib import Path

out, rel, old, new = sys.argv[1:5]
src = Path("/repo") / rel
text = src.read_text()
assert text.count(old) == 1, f"old text occurs {text.count(old)} times"
mut = text.replace(old, new)
diff = difflib.unified_diff(text.splitlines(True), mut.splitlines(True), f"a/{rel}", f"b/{rel}")
Path(out).write_text("".join(diff))
