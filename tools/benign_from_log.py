#!/usr/bin/env python3
"""Record the outcome of tools/benign_batch.sh runs (a log) in benign/<id>-k/meta.json under "confirmed"."""
import json
import re
import sys
import time
from pathlib import Path

root = Path(__file__).resolve().parents[1] / "benign"
for log in sys.argv[1:]:
    current = None
    blocks: dict[str, list[str]] = {}
    for line in Path(log).read_text().splitlines():
        if line.startswith("== "):
            current = line[3:].strip()
            blocks[current] = []
        elif current:
            blocks[current].append(line)
    for name, lines in blocks.items():
        meta_path = root / name / "meta.json"
        if not meta_path.exists():
            continue
        text = "\n".join(lines)
        if "PATCH-FAILED" in text:
            continue
        checks = {}
        for m in re.finditer(r"^(C\d\d): (silent|ALARM exit=(\d+))(.*)$", text, flags=re.M):
            checks[m.group(1)] = {"verdict": "silent" if m.group(2) == "silent" else f"alarm-exit-{m.group(3)}",
                                  "signatures": re.findall(r"signature=(\S+)", m.group(4))}
        if not checks:
            continue
        meta = json.loads(meta_path.read_text())
        confirmed = meta.get("confirmed") if isinstance(meta.get("confirmed"), dict) else {}
        tests = re.search(r"^TESTS (\w+)", text, flags=re.M)
        demo = re.search(r"^DEMO with-change exit=(\d+)", text, flags=re.M)
        confirmed.update({"at": time.strftime("%Y-%m-%d %H:%M:%S"), "source": Path(log).name})
        if tests:
            confirmed["tests_pass_with_change"] = tests.group(1) == "pass"
        if demo:
            confirmed["demo_exit_with_change"] = int(demo.group(1))
        confirmed.setdefault("checks", {}).update(checks)
        meta["confirmed"] = confirmed
        meta_path.write_text(json.dumps(meta, indent=1) + "\n")
        print(name, {k: v["verdict"] for k, v in checks.items()})
