#!/usr/bin/env python3
"""Regenerate the negative-control table in DESIGN.md from benign/*/meta.json."""
import json
import re
from pathlib import Path

root = Path(__file__).resolve().parents[1]
rows = ["| change | property | what was changed (short) | tests | demo | checks run: all silent? |", "|---|---|---|---|---|---|"]
for d in sorted((root / "benign").iterdir()):
    meta = json.loads((d / "meta.json").read_text()) if (d / "meta.json").exists() else {}
    conf = meta.get("confirmed") or {}
    checks = conf.get("checks") or {}
    loud = [f"{k}: {v['verdict']}" for k, v in checks.items() if v["verdict"] != "silent"]
    note = meta.get("verdict_note", "")
    summary = re.sub(r"\s+", " ", str(meta.get("summary", "")))[:170].replace("|", "/")
    rows.append(f"| {d.name} | {d.name.split('-')[0]} | {summary} | {'pass' if conf.get('tests_pass_with_change') else '?'} | "
                f"{conf.get('demo_exit_with_change', '?')} | {', '.join(sorted(checks)) or '-'}: {'all silent' if checks and not loud else '; '.join(loud) or 'not run'}"
                f"{' — ' + note if note else ''} |")
design = root / "DESIGN.md"
text = design.read_text()
start, end = "<!-- BENIGN-TABLE-START -->", "<!-- BENIGN-TABLE-END -->"
i, j = text.index(start) + len(start), text.index(end)
design.write_text(text[:i] + "\n" + "\n".join(rows) + "\n" + text[j:])
print(len(rows) - 2, "rows")
