#!/usr/bin/env python3
"""Regenerates /verif/MANIFEST.json from the table below (kept valid at all times)."""
import json
from pathlib import Path

VERIF = Path(__file__).resolve().parent.parent

# id -> (technique, level text, level note, design ref)
CHECKS = {
    "C04": (
        "exhaustive product enumeration (all orderings x all failure masks x percentile grid) on the real filter, exact-rational reference",
        "Bounded exhaustive exploration of the implementation: every ordering, failure mask and grid percentile for n<=5 (quick) / n<=7 (thorough) is executed on DefaultRealizationFilter and end-to-end through EnsembleEvaluator and compared with an exact Fraction reference. A coverage statement inside the bound, nothing beyond it.",
        "Trusted: CPython, NumPy, the 30-line Fraction reference; ties and two-sided constraint bounds are outside the statement (generated, counted trivial).",
        "DESIGN.md 2/C04",
    ),
    "C05": (
        "exhaustive product enumeration (all orderings x masks x windows x weight vectors; all 81 filter-index maps end-to-end) on the real filter and evaluator",
        "Bounded exhaustive exploration of the implementation: every ordering, failure mask, window and configured weight vector for n<=5 (quick) / n<=6 (+7 uniform, thorough) on DefaultRealizationFilter; every window in 0..n+1 for configuration-time rejection; every filter-index map over 2 objectives + 2 constraints end-to-end through EnsembleEvaluator.",
        "Trusted: CPython, NumPy, the 10-line rank-window reference; ties in the sort key are outside the statement.",
        "DESIGN.md 2/C05",
    ),
    "C01": (
        "exhaustive product enumeration (all estimator maps x all filter maps x all failure masks x weight vectors x batch layouts) through EnsembleEvaluator.calculate with a reference estimator",
        "Bounded exhaustive exploration of the implementation: for R<=3,F<=3 (quick) / R<=4,F<=4 (thorough) every estimator map, filter map, failure mask, threshold and weight vector is run as single vectors, batches, in different orders and through the functions+gradients path and compared with the reference weighted mean / sample stddev.",
        "Trusted: CPython, NumPy, the reference estimators in mc/ref.py; filter outputs are taken from separately constructed real filters (decided by C04/C05).",
        "DESIGN.md 2/C01",
    ),
    "C02": (
        "exhaustive product enumeration of affine ensembles / designs / masks / failure patterns through EnsembleEvaluator.calculate with an exact-slope reference",
        "Bounded exhaustive exploration of the implementation: the full product of the listed alphabets for V<=2,R<=2 (quick) / V<=3,R<=3 (thorough), combined and split paths, compared with the exact gradient of the affine ensemble; fixed entries compared with ==0.0; plus a spot slice with a common level of 2^20 on every realization for the stddev estimator.",
        "Trusted: CPython, NumPy (incl. its SVD for the conditioning precondition), the slope-combination reference. Cases missing the conditioning precondition are generated and counted trivial.",
        "DESIGN.md 2/C02",
    ),
    "C03": (
        "exhaustive fault enumeration: every subset of failing (realization, unperturbed|perturbation) cells x thresholds x filters x estimators, differential against the reduced ensemble",
        "Bounded exhaustive fault enumeration on the implementation: every subset of the R+R*P cells for shapes up to (3,2) (quick) / (3,3) (thorough), every NaN column, all thresholds; flags, None-ness, TOO_FEW_REALIZATIONS of the optimizer step, survivor estimates, reduced-ensemble differential and exact gradients.",
        "Trusted: CPython, NumPy, reference estimators; the reduced-ensemble comparison uses the real code as its own oracle.",
        "DESIGN.md 2/C03",
    ),
    "C10": (
        "exhaustive product enumeration of per-variable bound kind x boundary type x perturbation type x magnitude x position x injected sample values, all pairs of settings for two variables",
        "Bounded exhaustive exploration of the implementation on the gradient path with an injected deterministic sampler: all 120x120 per-variable setting pairs x 11 sample values, with and without a VariableScaler, compared exactly (==) with the reference x+m*s / clip / single reflection.",
        "Trusted: CPython, NumPy, the 15-line reference; multi-width mirror overshoots only judged for membership in the bounds.",
        "DESIGN.md 2/C10",
    ),
    "C13": (
        "exhaustive product enumeration of bound kinds x value positions for variables, linear and non-linear constraints through a real evaluator step with a tracker",
        "Bounded exhaustive exploration of the implementation: all 144 two-variable bound-kind/position settings x 19 linear x 19 non-linear settings (incl. values outside a bound by a relative 2^-20 and 2^-30) x transforms x tolerances run through Plan/evaluator step/tracker and compared with the IEEE formulas; plus 36 (quick) / 144 (thorough) wide spot instances (5 variables, 3x5 linear matrix, 4 non-linear constraints, batch of 3) that are single instances, not an exhaustive bound.",
        "Trusted: CPython, NumPy, the formulas value-lower, value-upper, max(lower-value,value-upper,0).",
        "DESIGN.md 2/C13",
    ),
    "C17": (
        "exhaustive product enumeration of methods x shapes x masks x sampler assignments x shared x seeds x consecutive calls on the real sampler plug-in, reference QMC engines",
        "Bounded exhaustive exploration of the implementation: every method, R<=3, P in {1,2,4,8}, V<=3, every mask and two-sampler assignment; contract checks plus point-set equality with an identically seeded scipy engine and LHS stratification; plus three single large shapes per method (up to 300 points per request) as spot instances.",
        "Trusted: scipy.stats.qmc engines (the reference), NumPy generators.",
        "DESIGN.md 2/C17",
    ),
    "C18": (
        "exhaustive enumeration of configuration dictionaries (full sub-products) + explicit-state closure over re-validation operations + walk over all reachable fields/arrays",
        "Bounded exhaustive exploration of the implementation: full cross products of configuration sub-alphabets, an invalid-configuration menu, a mutation attempt on every field and array reachable from the validated object, and the closure of {validate(object), validate(dump), validate(JSON)} sequences up to depth 3, which must be a single canonical state.",
        "Trusted: pydantic, NumPy; option dicts are not required to be frozen; dumps are re-validated without a context.",
        "DESIGN.md 2/C18",
    ),
    "C19": (
        "explicit-state BFS to closure over real PluginManager objects with an ordered-list reference model, all queries evaluated in every state; no-merge bounded-depth run",
        "Explicit-state model checking of the implementation: BFS over add_plugin transitions on one and two real managers, merged on the fully observable plugins() order, to closure; every lookup query evaluated in every state against the model; plus all add/lookup sequences up to depth 3/4 without merging.",
        "Trusted: the 30-line list model; state merging is sound because plugins() exposes the whole registration state (backed by the no-merge run).",
        "DESIGN.md 2/C19",
    ),
    "C07": (
        "exhaustive enumeration of all request sequences up to a depth (E4) through the real SciPy plug-in + EnsembleOptimizer + EnsembleEvaluator with a scripted driver in place of scipy's entry points; no state merging",
        "Bounded exhaustive exploration of the implementation: every sequence (depth 3 quick / 4 thorough, one deeper for the smallest alphabets) of objective / gradient / constraint / Jacobian requests over three points, for all speculative x split combinations, three constraint sets, gradient-based, gradient-free and population (scalar and vectorized) methods; each answer compared with a fresh stack asked only that request, plus evaluator-log rules.",
        "Trusted: the scripted driver (30 lines) and the fresh-stack differential oracle (the real code asked a single request). Points closer than the separation granted by the quantifier are not generated.",
        "DESIGN.md 2/C07",
    ),
    "C08": (
        "exhaustive product enumeration of constraint-kind vectors x masks x bound kinds x option forms with a capture driver; feasibility equivalence on an integer lattice",
        "Bounded exhaustive exploration of the implementation: every kind vector for up to 2 (quick) / 3 (thorough) non-linear x linear constraints for the constraint-capable methods, reduced sets for the other seven methods; what the plug-in hands to scipy is captured and compared with the configured problem on a lattice of exact test points, Jacobians against exact difference quotients, iteration limit and tolerance hand-over.",
        "Trusted: SciPy itself (only the seam is checked); rows touching a fixed variable may be absent but not wrong.",
        "DESIGN.md 2/C08",
    ),
    "C12": (
        "explicit-state BFS to closure over the real tracker handler in a real Plan with a reference list model; no-merge bounded-depth run; conformance replay of all model traces through BasicOptimizer",
        "Explicit-state model checking of the implementation: BFS over synthetic FINISHED_EVALUATION events (objective incl. NaN and ties x feasibility kinds x result kinds x sources, single and paired) for 18 configurations (what x tolerance x transforms), merged on the observable retained result, to closure; all sequences to depth 3/4 without merging; every model trace up to length 3/4 replayed through BasicOptimizer with a scripted SciPy driver.",
        "Trusted: the 20-line list model; merging is sound because the tracker's only state is the retained result (backed by the no-merge run).",
        "DESIGN.md 2/C12",
    ),
    "C06": (
        "exhaustive enumeration of all operation sequences up to length 3 (E4) on one EnsembleEvaluator per sequence, no state merging; whole-run differentials (garbage, memoizing and pooled evaluators)",
        "Bounded exhaustive exploration of the implementation: every sequence of functions / batch functions / gradient-only / combined evaluations at two points for the listed shapes, weights, filters, transforms and failure settings; label-completeness, value-by-label, activity-flag and immutability monitors on every call; differential runs with garbage in inactive entries, a memoizing evaluator and an evaluator that reuses read-only buffers.",
        "Trusted: the recording evaluator (harness); raw per-realization values of inactive entries are excluded from the garbage differential.",
        "DESIGN.md 2/C06",
    ),
    "C09": (
        "exhaustive enumeration of masks x scripted request sequences (E4) x samplers x scaler x start values, real short optimizer runs with a wrapped scipy entry point, nested plans",
        "Bounded exhaustive exploration of the implementation: all 7 masks (+none) of 3 variables, every scripted request sequence to depth 3 (quick) / 4 (thorough) incl. batch requests, from configured and explicit start values; slsqp / nelder-mead / differential evolution (scalar and vectorized) runs; nested plans with complementary masks; every evaluator row and every delivered result monitored; plus 24 single 300-variable instances (spot instances, not an exhaustive bound) through EnsembleEvaluator.calculate.",
        "Trusted: the monitors (harness); SciPy algorithms.",
        "DESIGN.md 2/C09",
    ),
    "C11": (
        "exhaustive differential enumeration: the same user-domain configuration run with and without each transform set through real evaluator and optimizer steps",
        "Bounded exhaustive exploration of the implementation: full cross product of variable-transform settings (10 quick / 38 thorough) x objective/constraint scalers x bounds x linear rows and kinds x perturbation and boundary types x samplers; evaluator rows and all user-domain result arrays compared with the untransformed run; feasibility equivalence on a lattice; round trip.",
        "Trusted: the untransformed run of the real code is the oracle (differential); dyadic scales.",
        "DESIGN.md 2/C11",
    ),
    "C14": (
        "deviation-bounded choice-point exploration (E2) of failure patterns over complete runs: every evaluator call x every row subset / evaluator exception, reference exit-code model",
        "Fault enumeration on the implementation: all executions with <=1 deviation (quick) / <=2 (thorough, scripted and evaluator drivers) where a deviation is any non-empty subset of a call's rows failing or the evaluator raising; 120 configurations x 4 drivers (scripted, evaluator step, slsqp, differential evolution) x budgets; exit code, escaping exceptions, budget and delivery of failing results judged against a reference model.",
        "Trusted: the reference exit-code model (about 120 lines) which uses the real filters to obtain filter weights; for real optimizers the expectation is derived from the recorded history.",
        "DESIGN.md 2/C14",
    ),
    "C15": (
        "deviation-bounded choice-point exploration (E2) with the user abort as deviation at every event delivery and evaluator call, over five plan shapes",
        "Exhaustive exploration of the implementation within the deviation bound (2 quick / 3 thorough): abort raised at every delivery of every event to every receiver (handler, ancestor handler, observer) and inside every evaluator call, with failures and max_functions stops mixed in; stream grammar, delivery discipline, exit code and abort latch checked on every execution.",
        "Trusted: the recording handler/observer harness; receivers after the aborting receiver of the same event are unspecified.",
        "DESIGN.md 2/C15",
    ),
    "C16": (
        "deviation-bounded choice-point exploration (E2) of environment deviations (global reseeding, global draws, complete nested foreign runs with fresh or shared manager/context) at every evaluator call; byte-identical trace oracle",
        "Exhaustive exploration of the implementation within the deviation bound (1 quick / 2 thorough) for 17 configurations (every sampler method shared/unshared, two samplers, filter+stddev+mask, nelder-mead, seeded differential evolution scalar and vectorized); the full trace must be byte-identical to the solo run; rerun on the same manager; seed sensitivity.",
        "Trusted: the evaluator is deterministic; no threads in ropt (interleaving is realised by nesting).",
        "DESIGN.md 2/C16",
    ),
    "C20": (
        "choice-point exploration (E2) over real two-process executions: every crash point (message index x death mode), evaluator exception at every evaluation, one pending poll at every index on either side; trace equality with the in-process run",
        "Fault enumeration on the implementation with a PATH shim around the real runner: for every message of the baseline run the child is killed / exits / raises before or after it; the parent's evaluator raises at each evaluation; single pending polls on both sides; configuration alphabet run in-process and externally with byte-equal traces; horizon 120 s per execution; orphan check.",
        "Trusted: the shim (60 lines, only wraps the real functions); OS scheduling is not controlled (lock-step protocol).",
        "DESIGN.md 2/C20",
    ),
}

NOT_YET = "check not built yet in this session (planned in DESIGN.md section 2); not claimed until its check exists"


def main() -> None:
    props = [json.loads(line)["id"] for line in (VERIF / "properties.jsonl").read_text().splitlines() if line.strip()]
    checks = []
    for pid in props:
        if pid not in CHECKS:
            continue
        technique, text, note, ref = CHECKS[pid]
        checks.append(
            {
                "property_id": pid,
                "quick_cmd": f"./run.sh {pid} quick",
                "thorough_cmd": f"./run.sh {pid} thorough",
                "evidence_file": f"/verif/evidence/{pid}.json",
                "replay_cmd_template": f"./run.sh {pid} quick --replay {{path}}",
                "engine": "mc",
                "level_claimed": {"category": "model_checking", "text": text, "design_ref": ref},
                "level_note": note,
                "technique": technique,
            }
        )
    manifest = {
        "version": 1,
        "setup_cmd": "cd /verif && PYTHONPATH=/repo/src:/verif PYTHONDONTWRITEBYTECODE=1 /venv/bin/python -m mc.selftest",
        "hooks": {
            "guard": "ROPT_VERIF",
            "enable": "no source hooks are used: every seam is a public plug-in point, a harness-owned callable, PATH, or a harness-side patch of scipy.optimize names; ROPT_VERIF is reserved and unused",
            "baseline_off_cmd": "cd /repo && /venv/bin/python -m pytest -ra -q -p no:cacheprovider --timeout=900 --continue-on-collection-errors",
            "source_commits": [],
            "add_only": True,
        },
        "engines": [
            {
                "name": "mc",
                "path": "/verif/mc",
                "serves_properties": sorted(CHECKS),
                "kind_free_text": "hand-written explicit-state / stateless explorers for Python (E1 product enumeration, E2 deviation-bounded choice-point DFS, E3 BFS over the real transition function, E4 bounded operation sequences), all executing the real implementation",
            }
        ],
        "checks": checks,
        "notes": "All checks run the implementation in /repo/src (ROPT_SRC) directly; see DESIGN.md.",
        "not_applicable": [{"property_id": pid, "reason": NOT_YET} for pid in props if pid not in CHECKS],
    }
    (VERIF / "MANIFEST.json").write_text(json.dumps(manifest, indent=1) + "\n")


if __name__ == "__main__":
    main()
