#!/usr/bin/env python3
"""Regenerates /verif/MANIFEST.json from the table below (kept valid at all times)."""
import json
from pathlib import Path

VERIF = Path(__file__).resolve().parent.parent

# id -> (technique, level text, level note, design ref)
CHECKS = {
    "C04": (
        "exhaustive product enumeration (all orderings x all failure masks x percentile grid) on the real filter, exact-rational reference",
        "Bounded exhaustive exploration of the implementation: every ordering, failure mask and grid percentile for n<=5 (quick) / n<=7 (thorough) is executed on DefaultRealizationFilter and end-to-end through EnsembleEvaluator and compared with an exact Fraction reference. A coverage statement inside the bound, nothing beyond it.",
        "Trusted: CPython, NumPy, the 30-line Fraction reference; ties and two-sided constraint bounds are outside the statement (generated, counted trivial).",
        "DESIGN.md 2/C04",
    ),
    "C05": (
        "exhaustive product enumeration (all orderings x masks x windows x weight vectors; all 81 filter-index maps end-to-end) on the real filter and evaluator",
        "Bounded exhaustive exploration of the implementation: every ordering, failure mask, window and configured weight vector for n<=5 (quick) / n<=6 (+7 uniform, thorough) on DefaultRealizationFilter; every window in 0..n+1 for configuration-time rejection; every filter-index map over 2 objectives + 2 constraints end-to-end through EnsembleEvaluator.",
        "Trusted: CPython, NumPy, the 10-line rank-window reference; ties in the sort key are outside the statement.",
        "DESIGN.md 2/C05",
    ),
    "C01": (
        "exhaustive product enumeration (all estimator maps x all filter maps x all failure masks x weight vectors x batch layouts) through EnsembleEvaluator.calculate with a reference estimator",
        "Bounded exhaustive exploration of the implementation: for R<=3,F<=3 (quick) / R<=4,F<=4 (thorough) every estimator map, filter map, failure mask, threshold and weight vector is run as single vectors, batches, in different orders and through the functions+gradients path and compared with the reference weighted mean / sample stddev.",
        "Trusted: CPython, NumPy, the reference estimators in mc/ref.py; filter outputs are taken from separately constructed real filters (decided by C04/C05).",
        "DESIGN.md 2/C01",
    ),
}

NOT_YET = "check not built yet in this session (planned in DESIGN.md section 2); not claimed until its check exists"


def main() -> None:
    props = [json.loads(line)["id"] for line in (VERIF / "properties.jsonl").read_text().splitlines() if line.strip()]
    checks = []
    for pid in props:
        if pid not in CHECKS:
            continue
        technique, text, note, ref = CHECKS[pid]
        checks.append(
            {
                "property_id": pid,
                "quick_cmd": f"./run.sh {pid} quick",
                "thorough_cmd": f"./run.sh {pid} thorough",
                "evidence_file": f"/verif/evidence/{pid}.json",
                "replay_cmd_template": f"./run.sh {pid} quick --replay {{path}}",
                "engine": "mc",
                "level_claimed": {"category": "model_checking", "text": text, "design_ref": ref},
                "level_note": note,
                "technique": technique,
            }
        )
    manifest = {
        "version": 1,
        "setup_cmd": "cd /verif && PYTHONPATH=/repo/src:/verif PYTHONDONTWRITEBYTECODE=1 /venv/bin/python -m mc.selftest",
        "hooks": {
            "guard": "ROPT_VERIF",
            "enable": "no source hooks are used: every seam is a public plug-in point, a harness-owned callable, PATH, or a harness-side patch of scipy.optimize names; ROPT_VERIF is reserved and unused",
            "baseline_off_cmd": "cd /repo && /venv/bin/python -m pytest -ra -q -p no:cacheprovider --timeout=900 --continue-on-collection-errors",
            "source_commits": [],
            "add_only": True,
        },
        "engines": [
            {
                "name": "mc",
                "path": "/verif/mc",
                "serves_properties": sorted(CHECKS),
                "kind_free_text": "hand-written explicit-state / stateless explorers for Python (E1 product enumeration, E2 deviation-bounded choice-point DFS, E3 BFS over the real transition function, E4 bounded operation sequences), all executing the real implementation",
            }
        ],
        "checks": checks,
        "notes": "All checks run the implementation in /repo/src (ROPT_SRC) directly; see DESIGN.md.",
        "not_applicable": [{"property_id": pid, "reason": NOT_YET} for pid in props if pid not in CHECKS],
    }
    (VERIF / "MANIFEST.json").write_text(json.dumps(manifest, indent=1) + "\n")


if __name__ == "__main__":
    main()
