#!/bin/bash
# import_benign.sh <worktree name> <property id>: copy a sub-agent's property-preserving changes into benign/<id>-k
wt="/tmp/wt/$1"; id="$2"
for n in 1 2 3; do
  [ -f "$wt/out/change_$n.diff" ] || continue
  d="/verif/benign/$id-$n"; mkdir -p "$d"
  cp "$wt/out/change_$n.diff" "$d/patch.diff"
  cp "$wt/out/demo_$n.py" "$d/demo.py" 2>/dev/null
  cp "$wt/out/meta_$n.json" "$d/meta.json" 2>/dev/null
done
git -C /repo worktree remove --force "$wt"
rm -rf "$wt"
