#!/bin/bash
# Re-confirm every seeded change against the check of its own property (writes seeded/<id>/meta.json "confirmed")
cd /verif
for d in seeded/*/; do
  s=$(basename $d); p=${s%%-*}
  echo "== $s"
  timeout 1800 tools/seed_eval.py seeded/$s $p < /dev/null 2>&1 | tail -3
done
