#!/bin/bash
# import_seed.sh <worktree name> <property id> <k1> <k2>: copy a sub-agent's two deliverables into seeded/<id>-k1, -k2
wt="/tmp/wt/$1"; id="$2"
n=1
for k in "$3" "$4"; do
  d="/verif/seeded/$id-$k"; mkdir -p "$d"
  cp "$wt/out/change_$n.diff" "$d/patch.diff"
  cp "$wt/out/demo_$n.py" "$d/demo.py"
  cp "$wt/out/meta_$n.json" "$d/meta.json"
  n=$((n+1))
done
git -C /repo worktree remove --force "$wt"
rm -rf "$wt"
