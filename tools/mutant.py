#!/usr/bin/env python3
"""Run checks against a seeded change without touching /repo.

usage: tools/mutant.py [--tests] [--tier quick] <patch.diff> <property id>...

Copies /repo (without .git) to a scratch directory outside /repo and /verif,
applies the patch there, optionally runs the baseline test-suite on the copy
(--tests; the change must keep it green), then runs each named check with
ROPT_SRC pointing at the copy (and --no-evidence so that /verif/evidence keeps
describing the real tree).  Prints CAUGHT / MISSED per check; removes the copy.
"""
import argparse
import os
import shutil
import subprocess
import sys
import tempfile
from pathlib import Path


def main() -> int:
    parser = argparse.ArgumentParser()
    parser.add_argument("--tests", action="store_true")
    parser.add_argument("--tier", default="quick")
    parser.add_argument("--keep", action="store_true")
    parser.add_argument("patch")
    parser.add_argument("ids", nargs="+")
    args = parser.parse_args()
    scratch = Path(tempfile.mkdtemp(prefix="mut.", dir="/tmp"))
    status = 0
    try:
        subprocess.run(
            ["rsync", "-a", "--exclude", ".git", "--exclude", "__pycache__", "/repo/", str(scratch) + "/"], check=True
        )
        res = subprocess.run(["patch", "-p1", "-s", "-i", str(Path(args.patch).resolve())], cwd=scratch)
        if res.returncode != 0:
            print("PATCH-FAILED")
            return 3
        env = dict(os.environ, ROPT_SRC=str(scratch / "src"), PYTHONDONTWRITEBYTECODE="1")
        if args.tests:
            env_t = dict(env, PYTHONPATH=str(scratch / "src"))
            res = subprocess.run(
                ["/venv/bin/python", "-m", "pytest", "-q", "-p", "no:cacheprovider", "-x", "--timeout=900"],
                cwd=scratch, env=env_t, capture_output=True, text=True,
            )
            tail = res.stdout.strip().splitlines()[-1:] if res.stdout.strip() else []
            print("TESTS", "pass" if res.returncode == 0 else "FAIL", *tail)
            if res.returncode != 0:
                print(res.stdout[-3000:])
        for pid in args.ids:
            res = subprocess.run(
                ["/verif/run.sh", pid, args.tier, "--no-evidence"], env=env, capture_output=True, text=True
            )
            lines = [l for l in res.stdout.splitlines() if l.startswith(("VIOLATION", "  signature", "INTERNAL", "NONDET"))]
            verdict = "CAUGHT" if res.returncode == 1 and any(l.startswith("VIOLATION") for l in lines) else (
                "MISSED" if res.returncode == 0 else f"BROKEN(exit {res.returncode})")
            print(f"{pid}: {verdict}")
            for line in lines[:6]:
                print("   ", line[:400])
            if verdict.startswith("BROKEN"):
                print(res.stdout[-2000:], res.stderr[-2000:])
            if verdict != "CAUGHT":
                status = 1
    finally:
        if not args.keep:
            shutil.rmtree(scratch, ignore_errors=True)
    return status


if __name__ == "__main__":
    sys.exit(main())
