"""Shared runner for the exhaustive checks.

A check module exposes

    PROPERTY        "C04"
    RULE            text: how cases are enumerated / what makes one non-trivial
    ASSUMPTIONS     list of strings
    shards(tier, seed)   -> list of JSON-able shard descriptors (simplest first)
    run_shard(shard)     -> ShardResult (enumerates every case of the shard on the
                            real implementation, through a Recorder)
    run_case(case)       -> Judgement for exactly one case (used by --replay and by
                            the replay-discipline re-execution before reporting)

The runner shards over a fork pool, merges counters, applies the known-findings
file, writes the replay files, the evidence file and the VIOLATION /
KNOWN-FINDING lines, and fixes the exit code (0 held, 1 violation, 2 the harness
itself is broken: nondeterminism or an internal error).
"""

from __future__ import annotations

import argparse
import hashlib
import json
import math
import multiprocessing as mp
import os
import sys
import time
import traceback
from dataclasses import dataclass, field
from pathlib import Path
from typing import Any, Callable, Iterable

VERIF = Path(__file__).resolve().parent.parent
EVIDENCE_DIR = VERIF / "evidence"
REPLAY_DIR = VERIF / "replays"
KNOWN_FINDINGS = VERIF / "known_findings.json"

MAX_KEPT_PER_SIGNATURE = 3
MAX_SAMPLES = 4


def jsonable(obj: Any) -> Any:
    """Convert numpy / tuples / floats (nan, inf) to something json can hold."""
    import numpy as np

    if isinstance(obj, dict):
        return {str(k): jsonable(v) for k, v in obj.items()}
    if isinstance(obj, (list, tuple)):
        return [jsonable(v) for v in obj]
    if isinstance(obj, np.ndarray):
        return jsonable(obj.tolist())
    if isinstance(obj, (np.bool_,)):
        return bool(obj)
    if isinstance(obj, (np.integer,)):
        return int(obj)
    if isinstance(obj, (float, np.floating)):
        value = float(obj)
        if math.isnan(value):
            return "nan"
        if math.isinf(value):
            return "inf" if value > 0 else "-inf"
        return value
    if isinstance(obj, (set, frozenset)):
        return sorted(jsonable(v) for v in obj)
    if isinstance(obj, (str, int, bool)) or obj is None:
        return obj
    return repr(obj)


def unjson_float(value: Any) -> float:
    if value == "nan":
        return float("nan")
    if value == "inf":
        return float("inf")
    if value == "-inf":
        return float("-inf")
    return float(value)


def unjson_floats(value: Any) -> Any:
    """Inverse of jsonable for nested lists of floats."""
    if isinstance(value, list):
        return [unjson_floats(v) for v in value]
    if isinstance(value, dict):
        return {k: unjson_floats(v) for k, v in value.items()}
    if isinstance(value, str) and value in ("nan", "inf", "-inf"):
        return unjson_float(value)
    return value


def stable_hash(obj: Any) -> int:
    text = json.dumps(jsonable(obj), sort_keys=True, separators=(",", ":"))
    return int.from_bytes(hashlib.blake2b(text.encode(), digest_size=8).digest(), "big")


@dataclass
class Judgement:
    """Verdict on one case."""

    trivial: bool = False
    outcome: str = "ok"
    transitions: int = 1
    # list of (signature, detail-dict)
    violations: list[tuple[str, dict[str, Any]]] = field(default_factory=list)

    def fail(self, signature: str, **detail: Any) -> None:
        self.violations.append((signature, jsonable(detail)))


@dataclass
class ShardResult:
    evaluations: int = 0
    nontrivial: int = 0
    distinct_nontrivial: int = 0
    states: int = 0
    transitions: int = 0
    outcomes: dict[str, int] = field(default_factory=dict)
    violation_counts: dict[str, int] = field(default_factory=dict)
    kept: list[dict[str, Any]] = field(default_factory=list)
    samples: list[Any] = field(default_factory=list)
    caps: list[str] = field(default_factory=list)
    extra: dict[str, Any] = field(default_factory=dict)


class Recorder:
    """Collects what one shard explored."""

    def __init__(self, shard: Any) -> None:
        self.shard = shard
        self.result = ShardResult()
        self._keys: set[int] = set()
        self._nontrivial_keys: set[int] = set()
        self._kept_per_sig: dict[str, int] = {}

    def add(self, key: Any, case_fn: Callable[[], Any] | Any, judgement: Judgement) -> None:
        """Register one explored case.

        key      hashable canonical identity of the case (distinctness)
        case_fn  the JSON-able case, or a thunk producing it (only evaluated for
                 samples and violations, so huge enumerations stay cheap)
        """
        res = self.result
        res.evaluations += 1
        res.transitions += judgement.transitions
        hkey = hash(key)
        self._keys.add(hkey)
        if not judgement.trivial:
            res.nontrivial += 1
            self._nontrivial_keys.add(hkey)
        res.outcomes[judgement.outcome] = res.outcomes.get(judgement.outcome, 0) + 1
        take_sample = len(res.samples) < 1 and not judgement.trivial
        case = None
        if judgement.violations or take_sample:
            case = case_fn() if callable(case_fn) else case_fn
            case = jsonable(case)
        if take_sample:
            res.samples.append({"case": case, "outcome": judgement.outcome})
        for signature, detail in judgement.violations:
            res.violation_counts[signature] = res.violation_counts.get(signature, 0) + 1
            kept = self._kept_per_sig.get(signature, 0)
            if kept < MAX_KEPT_PER_SIGNATURE:
                self._kept_per_sig[signature] = kept + 1
                res.kept.append({"signature": signature, "case": case, "detail": detail})

    def cap(self, text: str) -> None:
        self.result.caps.append(text)

    def finish(self) -> ShardResult:
        self.result.states = len(self._keys)
        self.result.distinct_nontrivial = len(self._nontrivial_keys)
        return self.result


def quiet_numpy() -> None:
    """The implementation divides by zero weights etc. on trivial cases; keep the log readable."""
    import warnings

    import numpy as np

    np.seterr(all="ignore")
    warnings.filterwarnings("ignore", category=RuntimeWarning)


def _load_known() -> dict[str, Any]:
    if KNOWN_FINDINGS.exists():
        return json.loads(KNOWN_FINDINGS.read_text())
    return {"findings": [], "fixed": []}


def _run_shard_wrapper(args: tuple[Any, int, Any]) -> tuple[int, Any]:
    module, index, shard = args
    try:
        return index, module.run_shard(shard)
    except Exception:  # noqa: BLE001
        return index, "INTERNAL " + traceback.format_exc()


_MODULE = None


def _pool_entry(arg: tuple[int, Any]) -> tuple[int, Any]:
    index, shard = arg
    return _run_shard_wrapper((_MODULE, index, shard))


def run_shards(module: Any, shard_list: list[Any], workers: int) -> list[Any]:
    global _MODULE  # noqa: PLW0603
    _MODULE = module
    results: list[Any] = [None] * len(shard_list)
    if workers <= 1:
        for index, shard in enumerate(shard_list):
            results[index] = _run_shard_wrapper((module, index, shard))[1]
        return results
    # Every shard runs in a process freshly forked from the (unpolluted) parent, so what a shard observes depends only
    # on the shard itself, also when the implementation keeps process-global state (module-level caches, plug-in
    # objects shared between managers).  This makes shard re-runs exact replays.
    from multiprocessing.connection import wait

    ctx = mp.get_context("fork")
    pending = list(enumerate(shard_list))
    pending.reverse()
    running: dict[Any, tuple[int, Any]] = {}
    limit = min(workers, len(shard_list))
    # VERIF_FAILFAST=1 (used by the mutation tools only, never by a registered command): stop exploring as soon as one
    # shard reports a violation that is not a known finding; the run is then reported as capped, not exhaustive.
    failfast = os.environ.get("VERIF_FAILFAST") == "1"
    known = {item["signature"] for item in _load_known().get("findings", []) if item.get("property") == module.PROPERTY}
    stop = False
    while (pending and not stop) or running:
        while pending and not stop and len(running) < limit:
            index, shard = pending.pop()
            parent_conn, child_conn = ctx.Pipe(duplex=False)
            proc = ctx.Process(target=_child_main, args=(child_conn, index, shard))
            proc.start()
            child_conn.close()
            running[parent_conn] = (index, proc)
        for conn in wait(list(running), timeout=5.0):
            index, proc = running.pop(conn)
            try:
                results[index] = conn.recv()
            except EOFError:
                results[index] = f"INTERNAL shard {index} died without a result (exit code {proc.exitcode})"
            conn.close()
            proc.join()
            res = results[index]
            if failfast and not stop and not isinstance(res, str) and any(sig not in known for sig in res.violation_counts):
                stop = True
                for other_conn, (other_index, other_proc) in list(running.items()):
                    other_proc.terminate()
                    other_proc.join()
                    other_conn.close()
                running.clear()
                break
    if stop:
        for index, res in enumerate(results):
            if res is None:
                results[index] = ShardResult()
                results[index].caps.append("fail-fast: not explored")
    return results


def _child_main(conn: Any, index: int, shard: Any) -> None:
    try:
        conn.send(_run_shard_wrapper((_MODULE, index, shard))[1])
    finally:
        conn.close()


def _fork_call(args: tuple[str, Any]) -> Any:
    kind, payload = args
    try:
        if kind == "case":
            judgement = _MODULE.run_case(payload)
            return [sig for sig, _ in judgement.violations]
        return _MODULE.run_shard(payload)
    except Exception:  # noqa: BLE001
        return "INTERNAL " + traceback.format_exc()


def in_fresh_process(module: Any, kind: str, payload: Any) -> Any:
    """Run `run_case` / `run_shard` in a process forked from the parent, which itself never executes the implementation."""
    global _MODULE  # noqa: PLW0603
    _MODULE = module
    ctx = mp.get_context("fork")
    with ctx.Pool(1, maxtasksperchild=1) as pool:
        return pool.apply(_fork_call, ((kind, payload),))


def main(module: Any, argv: list[str] | None = None) -> int:
    parser = argparse.ArgumentParser()
    parser.add_argument("--tier", default=os.environ.get("VERIF_TIER", "quick"), choices=["quick", "thorough"])
    parser.add_argument("--replay", default=None)
    parser.add_argument("--workers", type=int, default=int(os.environ.get("VERIF_WORKERS", "0")) or (os.cpu_count() or 4))
    parser.add_argument("--no-evidence", action="store_true")
    args = parser.parse_args(argv)
    seed = int(os.environ.get("VERIF_SEED", "0") or 0)
    prop = module.PROPERTY
    quiet_numpy()

    if args.replay:
        return replay(module, Path(args.replay))

    start = time.time()
    # Warm the entry-point plug-in cache in the parent (loading it takes ~1 s and would otherwise be repeated by every
    # forked shard process); nothing else of the implementation is executed in the parent.
    from ropt.plugins import PluginManager

    PluginManager()
    shard_list = module.shards(args.tier, seed)
    results = run_shards(module, shard_list, args.workers)

    internal = [r for r in results if isinstance(r, str)]
    if internal:
        # A crash of the harness is reported as such (exit 2) - unless other shards found violations: then those are
        # reported first (exit 1) and the crash is mentioned.
        print(f"INTERNAL-ERROR property={prop}: {len(internal)} shard(s) crashed in the harness")
        print(internal[0])
        if all(isinstance(r, str) or not r.violation_counts for r in results):
            return 2
        results = [ShardResult() if isinstance(r, str) else r for r in results]
        for r in results:
            if not r.evaluations and not r.caps:
                r.caps.append("shard crashed in the harness")

    total = ShardResult()
    for shard_index, res in enumerate(results):
        for kept in res.kept:
            kept["shard_index"] = shard_index
        total.evaluations += res.evaluations
        total.nontrivial += res.nontrivial
        total.distinct_nontrivial += res.distinct_nontrivial
        total.states += res.states
        total.transitions += res.transitions
        for key, value in res.outcomes.items():
            total.outcomes[key] = total.outcomes.get(key, 0) + value
        for key, value in res.violation_counts.items():
            total.violation_counts[key] = total.violation_counts.get(key, 0) + value
        total.kept.extend(res.kept)
        total.caps.extend(res.caps)
        for key, value in res.extra.items():
            if isinstance(value, (int, float)) and not isinstance(value, bool):
                total.extra[key] = total.extra.get(key, 0) + value
            else:
                total.extra[key] = value
    # a few samples spread over the shard list (first, middle, last)
    picks = sorted({0, len(results) // 3, (2 * len(results)) // 3, len(results) - 1})
    for pick in picks:
        if results[pick].samples and len(total.samples) < MAX_SAMPLES:
            total.samples.append(results[pick].samples[0])
    if not total.samples:
        for res in results:
            if res.samples:
                total.samples.append(res.samples[0])
                break

    known = _load_known()
    known_sigs = {
        item["signature"]: item for item in known.get("findings", []) if item.get("property") == prop
    }

    new_violations: list[dict[str, Any]] = []
    known_hits: dict[str, int] = {}
    for signature, count in sorted(total.violation_counts.items()):
        if signature in known_sigs:
            known_hits[signature] = count
    seen_new: dict[str, int] = {}
    for item in total.kept:
        signature = item["signature"]
        if signature in known_sigs:
            continue
        if seen_new.get(signature, 0) >= 1:
            continue
        seen_new[signature] = seen_new.get(signature, 0) + 1
        new_violations.append(item)

    exit_code = 0
    # Replay discipline: re-execute before reporting.
    for item in new_violations:
        again = in_fresh_process(module, "case", item["case"])
        if isinstance(again, str):
            print(f"NONDETERMINISM property={prop}: replay of a failing case crashed")
            print(again)
            return 2
        sigs = set(again)
        if item["signature"] not in sigs:
            # The case may depend on the history of its shard (objects shared between the cases of a shard, e.g. a
            # filter with stale internal state).  Re-run the whole shard: if the same case fails the same way again
            # the violation is deterministic and history dependent; the replay artefact is then the shard.
            shard = shard_list[item["shard_index"]]
            second = in_fresh_process(module, "shard", shard)
            if isinstance(second, str):
                second = None
            reproduced = second is not None and any(
                k["signature"] == item["signature"] and k["case"] == item["case"] for k in second.kept
            )
            if not reproduced:
                print(
                    f"NONDETERMINISM property={prop}: case failed with {item['signature']} "
                    f"in the explorer but not when replayed ({sorted(sigs)}), nor when its shard was re-run"
                )
                print(json.dumps(item["case"])[:2000])
                return 2
            item["history_shard"] = shard

    for signature, count in known_hits.items():
        what = known_sigs[signature].get("what", "")
        print(f"KNOWN-FINDING: property={prop} {signature}: {what} [{count} case(s) this run]")

    REPLAY_DIR.mkdir(exist_ok=True)
    for item in new_violations:
        digest = f"{stable_hash([item['signature'], item['case']]):016x}"
        path = REPLAY_DIR / f"{prop}-{digest}.json"
        path.write_text(
            json.dumps(
                {
                    "property": prop,
                    "module": f"checks.{prop.lower()}",
                    "signature": item["signature"],
                    "case": item["case"],
                    "detail": item["detail"],
                    "history_shard": item.get("history_shard"),
                },
                indent=1,
            )
        )
        count = total.violation_counts[item["signature"]]
        print(f"VIOLATION property={prop} replay={path}")
        print(f"  signature={item['signature']} cases={count} detail={json.dumps(item['detail'])[:1500]}")
        exit_code = 1

    wall = time.time() - start
    exhaustive = not total.caps
    n_outcomes = len(total.outcomes)
    coverage = {
        "states": max(total.states, 0),
        "transitions": max(total.transitions, 0),
        "traces_validated_against_impl": total.evaluations,
        "evaluations": total.evaluations,
        "distinct_nontrivial": total.distinct_nontrivial,
        "nontrivial": total.nontrivial,
        "trivial": total.evaluations - total.nontrivial,
        "rule": module.RULE,
        "samples": total.samples,
        "exhaustive": exhaustive,
        "caps_hit": total.caps,
        "shards": len(shard_list),
        "distinct_outcomes": n_outcomes,
        "outcomes": dict(sorted(total.outcomes.items(), key=lambda kv: -kv[1])[:40]),
        "bounds": getattr(module, "BOUNDS", {}).get(args.tier, ""),
        "known_findings_hit": known_hits,
        "new_violation_signatures": sorted(seen_new),
        "explanation": (
            "Exhaustive enumeration of the stated finite space, every case executed on the real "
            "implementation (the exploration is on the implementation itself, so every explored "
            "trace is an implementation trace)."
        ),
    }
    coverage.update({k: v for k, v in total.extra.items()})
    evidence = {
        "property_id": prop,
        "tier": args.tier,
        "seed": seed,
        "level": "model_checking",
        "coverage": coverage,
        "assumptions": list(module.ASSUMPTIONS),
        "wall_s": round(wall, 3),
        "violations": sum(v for k, v in total.violation_counts.items() if k not in known_sigs),
    }
    if not args.no_evidence:
        EVIDENCE_DIR.mkdir(exist_ok=True)
        (EVIDENCE_DIR / f"{prop}.json").write_text(json.dumps(jsonable(evidence), indent=1) + "\n")

    print(
        f"{prop} tier={args.tier} seed={seed} cases={total.evaluations} nontrivial={total.nontrivial} "
        f"distinct_nontrivial={total.distinct_nontrivial} states={total.states} transitions={total.transitions} "
        f"outcomes={n_outcomes} exhaustive={exhaustive} wall={wall:.1f}s"
    )
    if exit_code == 1 and os.environ.get("VERIF_FAILFAST") == "1":
        return exit_code
    if total.evaluations and n_outcomes <= 1 and not getattr(module, "SINGLE_OUTCOME_OK", False):
        print(f"INTERNAL-ERROR property={prop}: vacuous exploration (one outcome from {total.evaluations} cases)")
        return 2
    if total.distinct_nontrivial < 2:
        print(f"INTERNAL-ERROR property={prop}: vacuous exploration (fewer than 2 non-trivial cases)")
        return 2
    return exit_code


def replay(module: Any, path: Path) -> int:
    data = json.loads(path.read_text())
    quiet_numpy()
    if data.get("history_shard") is not None:
        # history-dependent violation: the artefact is the whole shard, the case is identified inside it
        result = module.run_shard(data["history_shard"])
        hits = [k for k in result.kept if k["signature"] == data["signature"] and k["case"] == data["case"]]
        if hits:
            print(f"FAIL property={module.PROPERTY} signature={data['signature']} (history dependent; shard re-run) detail={json.dumps(hits[0]['detail'])[:2000]}")
            return 1
        print(f"PASS property={module.PROPERTY} (case no longer violates when its shard is re-run)")
        return 0
    judgement = module.run_case(data["case"])
    if judgement.violations:
        for signature, detail in judgement.violations:
            print(f"FAIL property={module.PROPERTY} signature={signature} detail={json.dumps(detail)[:2000]}")
        return 1
    print(f"PASS property={module.PROPERTY} (case no longer violates; trivial={judgement.trivial})")
    return 0


def chunked(items: Iterable[Any], size: int) -> Iterable[list[Any]]:
    chunk: list[Any] = []
    for item in items:
        chunk.append(item)
        if len(chunk) >= size:
            yield chunk
            chunk = []
    if chunk:
        yield chunk
