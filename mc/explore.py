"""E2: stateless choice-point explorer with a deviation bound (CHESS-style).

The harness routes every environment answer it owns through
`chooser.choose(n, label)`.  A run replays a prefix of choices, then takes
choice 0 (the default answer) at every later point.  A non-zero choice costs one
deviation.  All executions with <= bound deviations are enumerated, each exactly
once; executions always run to completion.
"""

from __future__ import annotations

from dataclasses import dataclass, field
from typing import Any, Callable, Iterator


class ReplayDivergence(Exception):
    """The execution asked for a different choice point than the recorded one."""


@dataclass
class Chooser:
    prefix: list[int]
    labels_expected: list[str] | None = None
    choices: list[int] = field(default_factory=list)
    arities: list[int] = field(default_factory=list)
    labels: list[str] = field(default_factory=list)

    def choose(self, n: int, label: str = "") -> int:
        index = len(self.choices)
        if index < len(self.prefix):
            choice = self.prefix[index]
            if choice >= n:
                msg = f"replayed choice {choice} out of range {n} at point {index} ({label})"
                raise ReplayDivergence(msg)
            if self.labels_expected is not None and index < len(self.labels_expected):
                if self.labels_expected[index] != label:
                    msg = f"choice point {index}: label {label!r} != recorded {self.labels_expected[index]!r}"
                    raise ReplayDivergence(msg)
        else:
            choice = 0
        self.choices.append(choice)
        self.arities.append(n)
        self.labels.append(label)
        return choice

    @property
    def deviations(self) -> int:
        return sum(1 for c in self.choices if c != 0)


def explore(
    run: Callable[[Chooser], Any],
    bound: int,
    *,
    max_runs: int | None = None,
) -> Iterator[tuple[list[int], Chooser, Any]]:
    """Yield (choices, chooser, result) for every execution with <= bound deviations.

    Executions are produced by increasing number of deviations within DFS order of
    prefixes; every execution is visited exactly once because an alternative is
    only taken at positions after the replayed prefix.
    """
    stack: list[tuple[list[int], list[str] | None]] = [([], None)]
    runs = 0
    while stack:
        prefix, labels = stack.pop()
        chooser = Chooser(prefix=list(prefix), labels_expected=labels)
        result = run(chooser)
        if len(chooser.choices) < len(prefix):
            msg = f"execution ended after {len(chooser.choices)} choice points, prefix has {len(prefix)}"
            raise ReplayDivergence(msg)
        runs += 1
        yield list(chooser.choices), chooser, result
        if max_runs is not None and runs >= max_runs:
            return
        used = sum(1 for c in chooser.choices[: len(prefix)] if c != 0)
        children: list[tuple[list[int], list[str]]] = []
        if used < bound:
            for i in range(len(prefix), len(chooser.choices)):
                for alt in range(1, chooser.arities[i]):
                    children.append((chooser.choices[:i] + [alt], chooser.labels[: i + 1]))
        # LIFO stack: push in reverse so that the simplest alternative runs first
        stack.extend(reversed(children))


def replay(run: Callable[[Chooser], Any], choices: list[int]) -> tuple[Chooser, Any]:
    chooser = Chooser(prefix=list(choices))
    result = run(chooser)
    return chooser, result
