"""Harness seams: evaluator, design sampler, scripted optimizer, transforms.

Everything here is harness-side; nothing in ropt is patched by importing this
module.  All plug-ins are registered on private PluginManager instances through
the public `add_plugin` API.
"""

from __future__ import annotations

import contextlib
import copy
from dataclasses import dataclass, field
from typing import Any, Callable

import numpy as np
from numpy.typing import NDArray

from ropt.config.enopt import EnOptConfig
from ropt.evaluator import EvaluatorContext, EvaluatorResult
from ropt.plugins import PluginManager
from ropt.plugins.optimizer.base import Optimizer, OptimizerPlugin
from ropt.plugins.plan.base import PlanHandlerPlugin, ResultHandler
from ropt.plugins.sampler.base import Sampler, SamplerPlugin
from ropt.transforms import OptModelTransforms, VariableScaler
from ropt.transforms.base import NonLinearConstraintTransform, ObjectiveTransform

# --------------------------------------------------------------------------
# numeric helpers


def close(a: Any, b: Any, tol: float = 1e-9) -> bool:
    """|a-b| <= tol*(1+|b|) elementwise; NaN equals NaN; shapes must agree."""
    if a is None or b is None:
        return a is None and b is None
    a = np.asarray(a, dtype=np.float64)
    b = np.asarray(b, dtype=np.float64)
    if a.shape != b.shape:
        return False
    nan_a, nan_b = np.isnan(a), np.isnan(b)
    if not np.array_equal(nan_a, nan_b):
        return False
    inf = np.isinf(a) | np.isinf(b)
    if np.any(inf):
        if not np.array_equal(a[inf], b[inf]):
            return False
    ok = ~(nan_a | inf)
    return bool(np.all(np.abs(a[ok] - b[ok]) <= tol * (1.0 + np.abs(b[ok]))))


def bytes_of(a: Any) -> bytes | None:
    if a is None:
        return None
    return np.ascontiguousarray(a).tobytes()


# --------------------------------------------------------------------------
# evaluator


@dataclass
class EvalCall:
    variables: NDArray[np.float64]
    realizations: NDArray[np.intc]
    perturbations: NDArray[np.intc] | None
    active_objectives: NDArray[np.bool_] | None
    active_constraints: NDArray[np.bool_] | None
    active: NDArray[np.bool_] | None = None
    objectives: NDArray[np.float64] | None = None
    constraints: NDArray[np.float64] | None = None
    info: NDArray[np.float64] | None = None


class TableEvaluator:
    """Deterministic evaluator: value = fn(user x, realization) -> vector of F values.

    fn            callable(x: (V,), r: int) -> sequence of n_obj + n_con floats
    fail          callable(call_index, row, realization, perturbation) -> None | iterable
                  of function columns that get NaN for that row
    garbage       None: compute real values for inactive entries; otherwise a float
                  placed in every inactive (function, row) entry
    memoize       return the *same* EvaluatorResult object / arrays for a repeated
                  request (keyed on request bytes + labels + active flags)
    hook          callable(call_index, evaluator) invoked at the start of every call
                  (used to inject environment deviations, aborts, exceptions)
    """

    def __init__(
        self,
        fn: Callable[[NDArray[np.float64], int], Any],
        n_obj: int,
        n_con: int = 0,
        *,
        fail: Callable[[int, int, int, int], Any] | None = None,
        garbage: float | None = None,
        memoize: bool = False,
        hook: Callable[[int, "TableEvaluator"], None] | None = None,
        batch_ids: bool = False,
        pooled: bool = False,
        info: bool = False,
    ) -> None:
        # info: return evaluation_info {"tag": unique float per (call, row)} so that the per-row metadata can be traced
        self.info = info
        # pooled: the returned arrays are READ-ONLY views of internal buffers that are refilled on every call
        self.pooled = pooled
        self._pool: dict[str, np.ndarray] = {}
        self.fn = fn
        self.n_obj = n_obj
        self.n_con = n_con
        self.fail = fail
        self.garbage = garbage
        self.memoize = memoize
        self.hook = hook
        self.batch_ids = batch_ids
        self.calls: list[EvalCall] = []
        self.memo: dict[Any, EvaluatorResult] = {}
        self.returned: list[EvaluatorResult] = []
        self.snapshots: list[tuple[bytes | None, bytes | None]] = []
        self.info_snapshots: list[Any] = []

    def _to_pool(self, name: str, array: np.ndarray) -> np.ndarray:
        return _pool_store(self._pool, name, array)

    def __call__(self, variables: NDArray[np.float64], context: EvaluatorContext) -> EvaluatorResult:
        call_index = len(self.calls)
        if self.hook is not None:
            self.hook(call_index, self)
        call = EvalCall(
            variables=np.array(variables, copy=True),
            realizations=np.array(context.realizations, copy=True),
            perturbations=None if context.perturbations is None else np.array(context.perturbations, copy=True),
            active_objectives=None if context.active_objectives is None else np.array(context.active_objectives, copy=True),
            active_constraints=None if context.active_constraints is None else np.array(context.active_constraints, copy=True),
            active=None if getattr(context, "active", None) is None else np.array(context.active, copy=True),
        )
        self.calls.append(call)
        key = None
        if self.memoize:
            key = (
                bytes_of(call.variables),
                bytes_of(call.realizations),
                bytes_of(call.perturbations),
                bytes_of(call.active_objectives),
                bytes_of(call.active_constraints),
            )
            if key in self.memo:
                result = self.memo[key]
                call.objectives = np.array(result.objectives, copy=True)
                call.constraints = None if result.constraints is None else np.array(result.constraints, copy=True)
                self.returned.append(result)
                self.snapshots.append((bytes_of(result.objectives), bytes_of(result.constraints)))
                self.info_snapshots.append(info_state(result))
                return result
        n_rows = variables.shape[0]
        objectives = np.zeros((n_rows, self.n_obj), dtype=np.float64)
        constraints = np.zeros((n_rows, self.n_con), dtype=np.float64) if self.n_con else None
        for row in range(n_rows):
            realization = int(context.realizations[row])
            perturbation = -1 if context.perturbations is None else int(context.perturbations[row])
            values = np.asarray(self.fn(np.asarray(variables[row, :], dtype=np.float64), realization), dtype=np.float64)
            objectives[row, :] = values[: self.n_obj]
            if constraints is not None:
                constraints[row, :] = values[self.n_obj :]
            if self.garbage is not None:
                # an evaluator may use the per-realization short-cut flag and skip the whole row
                if getattr(context, "active", None) is not None and not context.active[realization]:
                    objectives[row, :] = self.garbage
                    if constraints is not None:
                        constraints[row, :] = self.garbage
                if context.active_objectives is not None:
                    for j in range(self.n_obj):
                        if not context.active_objectives[j, realization]:
                            objectives[row, j] = self.garbage
                if constraints is not None and context.active_constraints is not None:
                    for j in range(self.n_con):
                        if not context.active_constraints[j, realization]:
                            constraints[row, j] = self.garbage
            if self.fail is not None:
                columns = self.fail(call_index, row, realization, perturbation)
                if columns is not None:
                    for column in columns:
                        if column < self.n_obj:
                            objectives[row, column] = np.nan
                        elif constraints is not None:
                            constraints[row, column - self.n_obj] = np.nan
        if self.pooled:
            objectives = self._to_pool("objectives", objectives)
            if constraints is not None:
                constraints = self._to_pool("constraints", constraints)
        extra: dict[str, Any] = {}
        if self.info:
            call.info = 1000.0 * (call_index + 1) + np.arange(n_rows, dtype=np.float64)
            extra["evaluation_info"] = {"tag": call.info.copy()}
        result = EvaluatorResult(
            objectives=objectives,
            constraints=constraints,
            batch_id=call_index if self.batch_ids else None,
            **extra,
        )
        call.objectives = objectives.copy()
        call.constraints = None if constraints is None else constraints.copy()
        if self.memoize:
            self.memo[key] = result
        self.returned.append(result)
        self.snapshots.append((bytes_of(objectives), bytes_of(constraints)))
        self.info_snapshots.append(info_state(result))
        return result


def info_state(result: EvaluatorResult) -> Any:
    """Keys, shapes, dtypes and bytes of the evaluation_info of a returned result (the evaluator's own object)."""
    info = getattr(result, "evaluation_info", None) or {}
    return tuple((key, np.asarray(value).shape, str(np.asarray(value).dtype), np.asarray(value).tobytes()) for key, value in sorted(info.items()))


def _pool_store(pool: dict[str, np.ndarray], name: str, array: np.ndarray) -> np.ndarray:
    buf = pool.get(name)
    if buf is None or buf.shape[0] < 64 or buf.shape[1] != array.shape[1]:
        buf = np.full((64, array.shape[1]), -12345.0)
        pool[name] = buf
    buf[:] = -12345.0  # refill: anything handed out earlier is overwritten
    buf[: array.shape[0]] = array
    view = buf[: array.shape[0]]
    view.setflags(write=False)
    return view


class AffineEnsemble:
    """f_j(x, r) = offsets[r][j] + slopes[r][j] . x  (+ quad[j] * |x|^2)."""

    def __init__(self, slopes: Any, offsets: Any, quad: Any = None) -> None:
        self.slopes = np.asarray(slopes, dtype=np.float64)  # (R, F, V)
        self.offsets = np.asarray(offsets, dtype=np.float64)  # (R, F)
        self.quad = None if quad is None else np.asarray(quad, dtype=np.float64)  # (F,)

    def __call__(self, x: NDArray[np.float64], r: int) -> NDArray[np.float64]:
        values = self.offsets[r] + self.slopes[r] @ x
        if self.quad is not None:
            values = values + self.quad * float(x @ x)
        return values


# --------------------------------------------------------------------------
# sampler plug-in emitting a fixed design


class DesignSampler(Sampler):
    """Sampler whose samples are given in the options: {"design": (P,V') or (R,P,V')}.

    V' is the number of variables handled by this sampler (mask.sum() or all).  With
    "cycle": k the design is rotated by k rows on each successive call.
    """

    def __init__(self, enopt_config: EnOptConfig, sampler_index: int, mask: NDArray[np.bool_] | None, rng: Any) -> None:
        self._config = enopt_config
        self._sampler_config = enopt_config.samplers[sampler_index]
        self._mask = mask
        self._calls = 0

    def generate_samples(self) -> NDArray[np.float64]:
        config = self._config
        n_var = config.variables.initial_values.size
        n_real = config.realizations.weights.size
        n_pert = config.gradient.number_of_perturbations
        design = np.asarray(self._sampler_config.options["design"], dtype=np.float64)
        dim = n_var if self._mask is None else int(self._mask.sum())
        if design.ndim == 2:
            design = np.repeat(design[np.newaxis, ...], n_real, axis=0)
        assert design.shape == (n_real, n_pert, dim), (design.shape, (n_real, n_pert, dim))
        self._calls += 1
        if self._sampler_config.options.get("reuse"):
            # a sampler that keeps its (constant) samples and returns the same array object on every call
            if getattr(self, "_stored", None) is None:
                if self._mask is None:
                    self._stored = design.copy()
                else:
                    self._stored = np.zeros((n_real, n_pert, n_var), dtype=np.float64)
                    self._stored[..., self._mask] = design
            return self._stored
        if self._mask is None:
            return design.copy()
        result = np.zeros((n_real, n_pert, n_var), dtype=np.float64)
        result[..., self._mask] = design
        return result


class DesignSamplerPlugin(SamplerPlugin):
    def create(self, enopt_config: EnOptConfig, sampler_index: int, mask: Any, rng: Any) -> DesignSampler:
        return DesignSampler(enopt_config, sampler_index, mask, rng)

    def is_supported(self, method: str) -> bool:
        return method.lower() == "design"


# --------------------------------------------------------------------------
# scripted optimizer plug-in


@dataclass
class ScriptLog:
    requests: list[tuple[Any, bool, bool]] = field(default_factory=list)
    answers: list[tuple[Any, Any]] = field(default_factory=list)
    initial: Any = None


class ScriptedOptimizer(Optimizer):
    """Issues a fixed list of call-backs: options = {"script": [[x, rf, rg], ...]}.

    x is the vector of *free* variables (or a 2-D batch).  The answers are logged
    on the plug-in object (`plugin.log`).
    """

    def __init__(self, config: EnOptConfig, optimizer_callback: Any, plugin: "ScriptedOptimizerPlugin") -> None:
        self._config = config
        self._callback = optimizer_callback
        self._plugin = plugin

    def start(self, initial_values: NDArray[np.float64]) -> None:
        log = self._plugin.log
        log.initial = np.array(initial_values, copy=True)
        options = self._config.optimizer.options
        assert isinstance(options, dict)
        buffers: dict[Any, NDArray[np.float64]] = {}
        for x, want_f, want_g in options["script"]:
            value = np.array(x, dtype=np.float64)
            # like real algorithms, one array per shape is kept and overwritten in place for every request (and
            # scribbled on after the call-back returned): whatever is kept of a request must be a copy
            x_arr = buffers.setdefault(value.shape, np.empty(value.shape))
            x_arr[...] = value
            log.requests.append((value.copy(), bool(want_f), bool(want_g)))
            functions, gradients = self._callback(x_arr, return_functions=bool(want_f), return_gradients=bool(want_g))
            log.answers.append((np.array(functions, copy=True), np.array(gradients, copy=True)))
            x_arr[...] = -98765.0

    @property
    def allow_nan(self) -> bool:
        options = self._config.optimizer.options
        return bool(isinstance(options, dict) and options.get("allow_nan", False))

    @property
    def is_parallel(self) -> bool:
        options = self._config.optimizer.options
        return bool(isinstance(options, dict) and options.get("parallel", False))


class ScriptedOptimizerPlugin(OptimizerPlugin):
    def __init__(self) -> None:
        self.log = ScriptLog()

    def create(self, config: EnOptConfig, optimizer_callback: Any) -> ScriptedOptimizer:
        self.log = ScriptLog()
        return ScriptedOptimizer(config, optimizer_callback, self)

    def is_supported(self, method: str) -> bool:
        return method.lower() == "scripted"


# --------------------------------------------------------------------------
# recording result handler plug-in


class RecordingHandler(ResultHandler):
    def __init__(self, plan: Any, *, log: list[Any], tag: str = "h", abort_at: Any = None) -> None:
        super().__init__(plan)
        self._log = log
        self._name = tag
        self._abort_at = abort_at

    def handle_event(self, event: Any) -> None:
        self._log.append((self._name, event))
        if self._abort_at is not None:
            self._abort_at(self._name, event)


class RecordingHandlerPlugin(PlanHandlerPlugin):
    def create(self, name: str, plan: Any, **kwargs: Any) -> RecordingHandler:
        return RecordingHandler(plan, **kwargs)

    def is_supported(self, method: str) -> bool:
        return method.lower() == "recorder"


# --------------------------------------------------------------------------
# plug-in manager with the harness plug-ins


def make_manager() -> tuple[PluginManager, ScriptedOptimizerPlugin]:
    manager = PluginManager()
    scripted = ScriptedOptimizerPlugin()
    manager.add_plugin("sampler", "verif", DesignSamplerPlugin())
    manager.add_plugin("optimizer", "verif", scripted)
    manager.add_plugin("plan_handler", "verif", RecordingHandlerPlugin())
    return manager, scripted


# --------------------------------------------------------------------------
# transforms


class ObjectiveScaler(ObjectiveTransform):
    def __init__(self, scales: Any) -> None:
        self._scales = np.asarray(scales, dtype=np.float64)

    def to_optimizer(self, objectives: NDArray[np.float64]) -> NDArray[np.float64]:
        return objectives / self._scales

    def from_optimizer(self, objectives: NDArray[np.float64]) -> NDArray[np.float64]:
        return objectives * self._scales


class MaximizeTransform(ObjectiveTransform):
    """Sign-flipping objective transform: the optimizer minimizes -f."""

    def to_optimizer(self, objectives: NDArray[np.float64]) -> NDArray[np.float64]:
        return -objectives

    def from_optimizer(self, objectives: NDArray[np.float64]) -> NDArray[np.float64]:
        return -objectives

    def weighted_objective_from_optimizer(self, weighted_objective: NDArray[np.float64]) -> NDArray[np.float64]:
        return -weighted_objective


class ConstraintScaler(NonLinearConstraintTransform):
    def __init__(self, scales: Any) -> None:
        self._scales = np.asarray(scales, dtype=np.float64)

    def bounds_to_optimizer(self, lower_bounds: Any, upper_bounds: Any) -> tuple[Any, Any]:
        return lower_bounds / self._scales, upper_bounds / self._scales

    def to_optimizer(self, constraints: NDArray[np.float64]) -> NDArray[np.float64]:
        return constraints / self._scales

    def from_optimizer(self, constraints: NDArray[np.float64]) -> NDArray[np.float64]:
        return constraints * self._scales

    def nonlinear_constraint_diffs_from_optimizer(self, lower_diffs: Any, upper_diffs: Any) -> tuple[Any, Any]:
        return lower_diffs * self._scales, upper_diffs * self._scales


def make_transforms(
    *,
    var_scales: Any = None,
    var_offsets: Any = None,
    obj_scales: Any = None,
    con_scales: Any = None,
    maximize: bool = False,
) -> OptModelTransforms | None:
    variables = None
    if var_scales is not None or var_offsets is not None:
        # scales given as Python ints are handed over as an integer array (a legitimate way to write positive scales)
        all_int = var_scales is not None and all(isinstance(v, int) and not isinstance(v, bool) for v in var_scales)
        variables = VariableScaler(
            None if var_scales is None else (np.asarray(var_scales) if all_int else np.asarray(var_scales, dtype=np.float64)),
            None if var_offsets is None else np.asarray(var_offsets, dtype=np.float64),
        )
    objectives: ObjectiveTransform | None = None
    if maximize:
        objectives = MaximizeTransform()
    elif obj_scales is not None:
        objectives = ObjectiveScaler(obj_scales)
    constraints = None if con_scales is None else ConstraintScaler(con_scales)
    if variables is None and objectives is None and constraints is None:
        return None
    return OptModelTransforms(variables=variables, objectives=objectives, nonlinear_constraints=constraints)


# --------------------------------------------------------------------------
# misc


def validate(config: dict[str, Any], transforms: OptModelTransforms | None = None) -> EnOptConfig:
    return EnOptConfig.model_validate(copy.deepcopy(config), context=transforms)


def exception_name(exc: BaseException) -> str:
    from ropt.exceptions import OptimizationAborted

    if isinstance(exc, OptimizationAborted):
        return f"OptimizationAborted({exc.exit_code.name})"
    return type(exc).__name__


# ---------------------------------------------------------------------------- SciPy entry-point seam

@contextlib.contextmanager
def scipy_entry_points(minimize: Any = None, differential_evolution: Any = None) -> Any:
    """Replace the SciPy entry points the optimizer plug-in calls by drivers that are always called with keywords.

    The seam is the public SciPy API, reached however the plug-in refers to it: names bound in the plug-in module
    (`from scipy.optimize import minimize`) and the attributes of `scipy.optimize` itself.  Positional arguments are
    mapped to their parameter names with the signature of the real function, so a driver sees the same keywords whatever
    call style the plug-in uses.  Yields {"minimize": real function, "differential_evolution": real function}.
    """
    import inspect

    import scipy.optimize as so

    from ropt.plugins.optimizer import scipy as plugin

    real = {"minimize": so.minimize, "differential_evolution": so.differential_evolution}
    drivers = {"minimize": minimize, "differential_evolution": differential_evolution}

    def adapt(name: str) -> Any:
        signature = inspect.signature(real[name])

        def entry(*args: Any, **kwargs: Any) -> Any:
            bound = signature.bind_partial(*args, **kwargs)
            return drivers[name](**bound.arguments)

        return entry

    saved: list[tuple[Any, str, Any]] = []
    try:
        for name, driver in drivers.items():
            if driver is None:
                continue
            entry = adapt(name)
            for holder in (plugin, so):
                if hasattr(holder, name):
                    saved.append((holder, name, getattr(holder, name)))
                    setattr(holder, name, entry)
        yield real
    finally:
        for holder, name, original in reversed(saved):
            setattr(holder, name, original)
