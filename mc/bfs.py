"""E3: explicit-state breadth-first search over the real transition function.

A state is the event history that reaches it: live objects are rebuilt by replaying
the history on a fresh implementation object (`build`).  `canon` maps the rebuilt
object to a hashable canonical form of its *observable* fields; states with equal
canonical form are merged (the check using this must argue that the form captures
everything that determines the future).  With merge=False the search is a plain
bounded-depth enumeration of histories.
"""

from __future__ import annotations

import collections
from typing import Any, Callable, Hashable, Iterable


class BFSResult:
    def __init__(self) -> None:
        self.states = 0
        self.transitions = 0
        self.max_depth = 0
        self.closed = True
        self.violations: list[tuple[list[Any], str, Any]] = []


def bfs(
    build: Callable[[list[Any]], Any],
    events: Callable[[Any, list[Any]], Iterable[Any]],
    canon: Callable[[Any, list[Any]], Hashable],
    check: Callable[[Any, list[Any]], Iterable[tuple[str, Any]]],
    *,
    max_depth: int,
    merge: bool = True,
    max_states: int | None = None,
) -> BFSResult:
    """Explore; `check(obj, history)` yields (signature, detail) for every violation in that state."""
    result = BFSResult()
    root = build([])
    seen = {canon(root, [])}
    frontier: collections.deque[list[Any]] = collections.deque([[]])
    result.states = 1
    for sig, detail in check(root, []):
        result.violations.append(([], sig, detail))
    while frontier:
        hist = frontier.popleft()
        if len(hist) >= max_depth:
            result.closed = False
            continue
        obj = build(hist)
        for ev in events(obj, hist):
            nxt_hist = hist + [ev]
            nxt = build(nxt_hist)
            result.transitions += 1
            for sig, detail in check(nxt, nxt_hist):
                result.violations.append((nxt_hist, sig, detail))
            key = canon(nxt, nxt_hist) if merge else tuple(map(repr, nxt_hist))
            if key not in seen:
                seen.add(key)
                result.states += 1
                result.max_depth = max(result.max_depth, len(nxt_hist))
                frontier.append(nxt_hist)
                if max_states is not None and result.states >= max_states:
                    result.closed = False
                    return result
    return result
