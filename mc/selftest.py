"""setup_cmd: byte-compile the framework and self-test the explorers on toys."""

from __future__ import annotations

import compileall
import sys
from pathlib import Path

from mc import bfs as bfs_mod
from mc import explore as ex

VERIF = Path(__file__).resolve().parent.parent


def test_explore() -> None:
    # toy: 3 choice points with arity 3; planted bug when choices == [0, 2, 1]
    def run(chooser: ex.Chooser) -> bool:
        a = chooser.choose(3, "a")
        b = chooser.choose(3, "b")
        c = chooser.choose(3, "c")
        return (a, b, c) == (0, 2, 1)

    for bound, expected_runs, expect_found in ((0, 1, False), (1, 7, False), (2, 19, True), (3, 27, True)):
        runs = list(ex.explore(run, bound))
        assert len(runs) == expected_runs, (bound, len(runs))
        assert len({tuple(c) for c, _, _ in runs}) == expected_runs
        assert any(r for _, _, r in runs) == expect_found, bound
    # data-dependent arity and replay divergence detection
    calls = {"n": 0}

    def flaky(chooser: ex.Chooser) -> None:
        calls["n"] += 1
        chooser.choose(2, "x" if calls["n"] == 1 else "y")
        chooser.choose(2, "z")

    try:
        list(ex.explore(flaky, 2))
    except ex.ReplayDivergence:
        pass
    else:
        raise AssertionError("nondeterminism not detected")


def test_bfs() -> None:
    # toy: counter modulo 5 with +1/+2, invariant violated at 4
    def build(hist: list[int]) -> int:
        return sum(hist) % 5

    res = bfs_mod.bfs(
        build,
        lambda obj, hist: [1, 2],
        lambda obj, hist: obj,
        lambda obj, hist: [("four", obj)] if obj == 4 else [],
        max_depth=10,
    )
    assert res.states == 5 and res.transitions == 10 and res.closed, (res.states, res.transitions, res.closed)
    assert res.violations
    res = bfs_mod.bfs(build, lambda o, h: [1, 2], lambda o, h: o, lambda o, h: [], max_depth=3, merge=False)
    assert res.states == 1 + 2 + 4 + 8, res.states


def main() -> int:
    ok = compileall.compile_dir(str(VERIF / "mc"), quiet=1, force=False) and compileall.compile_dir(
        str(VERIF / "checks"), quiet=1, force=False
    )
    if not ok:
        print("compile failed")
        return 1
    test_explore()
    test_bfs()
    import ropt  # noqa: F401  (the implementation under test must be importable)

    print("selftest ok")
    return 0


if __name__ == "__main__":
    sys.exit(main())
