"""Reference models (kept boring): estimators, filters, constraint info."""

from __future__ import annotations

import math
from typing import Any

import numpy as np


def norm_weights(configured: Any, failed: Any) -> np.ndarray | None:
    """Failed -> 0, renormalize to sum one; None when nothing positive remains."""
    w = np.where(np.asarray(failed, dtype=bool), 0.0, np.asarray(configured, dtype=np.float64))
    total = float(w.sum())
    if not total > 0:
        return None
    return w / total


def mean(values: Any, w: np.ndarray) -> float:
    values = np.asarray(values, dtype=np.float64)
    return float(sum(w[i] * values[i] for i in range(len(w)) if w[i] > 0))


def stddev(values: Any, w: np.ndarray) -> float | None:
    """Sample standard deviation with the N/(N-1) correction over the N positive weights."""
    values = np.asarray(values, dtype=np.float64)
    idx = [i for i in range(len(w)) if w[i] > 0]
    if len(idx) < 2:
        return None
    m = sum(w[i] * values[i] for i in idx)
    var = sum(w[i] * (values[i] - m) ** 2 for i in idx)
    return math.sqrt(len(idx) / (len(idx) - 1) * var)


def estimate(method: str, values: Any, w: np.ndarray) -> float | None:
    return mean(values, w) if method == "mean" else stddev(values, w)


def sort_window_weights(keys: Any, failed: Any, configured: Any, first: int, last: int) -> np.ndarray:
    keys = np.asarray(keys, dtype=np.float64)
    failed = np.asarray(failed, dtype=bool)
    configured = np.asarray(configured, dtype=np.float64)
    success = [i for i in range(len(keys)) if not failed[i]]
    success.sort(key=lambda i: keys[i])
    out = np.zeros(len(keys))
    for rank, i in enumerate(success):
        if first <= rank <= last:
            out[i] = configured[i]
    return out
