"""C05 - the sort filter selects exactly the configured rank window of successful members."""

from __future__ import annotations

import itertools
import sys
from typing import Any

import numpy as np

from mc import core, ref
from mc.core import Judgement, Recorder
from mc.harness import TableEvaluator, close, exception_name, make_manager, validate

PROPERTY = "C05"
RULE = (
    "E1 product enumeration on the real sort filters: flavour (sort-objective 1 key / 2 keys, sort-constraint) x n x "
    "ALL n! orderings of distinct sort keys x ALL 2^n failure masks x ALL windows 0<=first<=last<n x configured weight "
    "vectors {uniform, 1..n, with a zero}; ALL windows with first/last in 0..n+1 for configuration-time rejection; "
    "end-to-end: ALL 81 filter-index maps {2 objectives, 2 constraints} -> {none, filter0, filter1} x orderings x masks. "
    "Reference: sort the successes ascending, take ranks first..last. Plus one ensemble of n=20 (three fixed orderings, no / each single / two double failures, four windows). Trivial: nothing (every case is judged); "
    "distinct = distinct parameter tuple."
)
ASSUMPTIONS = [
    "sort keys are distinct (ties are outside the statement)",
    "weights compared exactly (they are copies of the configured weights); function values with 1e-9 relative tolerance",
]
BOUNDS = {
    "quick": "direct n<=5; windows n<=5; end-to-end R=3, all 81 maps x all orderings x all masks",
    "thorough": "direct n<=6 (+n=7 uniform weights); end-to-end R<=4",
}
FLAVOURS = ["obj1", "obj2", "obj2_neg", "con"]


def weight_vectors(n: int) -> dict[str, list[float]]:
    out = {"uniform": [1.0] * n}
    if n > 1:
        out["ramp"] = [float(i + 1) for i in range(n)]
        out["zero"] = [0.0 if i == n // 2 else float(1 + (i % 2)) for i in range(n)]
    if 2 <= n <= 4:
        # one weight is positive but far below machine epsilon relative to the others: still a positive weight
        out["tiny"] = [1e-17 if i == n // 2 else 1.0 for i in range(n)]
    return out


def key_table(n: int, seed: int) -> np.ndarray:
    scale = [0.5, 2.0, 0.125, 1.0][seed % 4]
    shift = [-0.75, 3.0, 0.0, -10.0][(seed // 4) % 4]
    return (np.arange(n, dtype=np.float64)) * scale + shift


def build_config(flavour: str, n: int, weights: list[float], first: int, last: int) -> dict[str, Any]:
    config: dict[str, Any] = {
        "variables": {"initial_values": [0.0]},
        "realizations": {"weights": weights, "realization_min_success": 0},
    }
    if flavour == "con":
        config["nonlinear_constraints"] = {"lower_bounds": [0.0], "upper_bounds": [np.inf], "realization_filters": [0]}
        config["realization_filters"] = [{"method": "sort-constraint", "options": {"sort": 0, "first": first, "last": last}}]
    else:
        sort = [0] if flavour == "obj1" else ([1] if flavour == "obj2_neg" else [0, 1])
        config["objectives"] = {
            "weights": [1.0] if flavour == "obj1" else ([2.0, -1.0] if flavour == "obj2_neg" else [0.25, 0.75]),
            "realization_filters": [0] if flavour == "obj1" else [0, 0],
        }
        config["realization_filters"] = [{"method": "sort-objective", "options": {"sort": sort, "first": first, "last": last}}]
    return config


def make_inputs(flavour: str, keys: np.ndarray, failed: np.ndarray) -> tuple[np.ndarray, np.ndarray | None]:
    n = keys.size
    idx = np.arange(n, dtype=np.float64)
    if flavour == "obj1":
        objectives, constraints = keys[:, None].copy(), None
    elif flavour == "obj2":
        c = 1.0 - 0.5 * idx
        objectives, constraints = np.stack([keys - 3 * c, keys + c], axis=1), None
    elif flavour == "obj2_neg":
        # objective weights (2,-1), sort key = objective 1 only: weighted value -1 * (-keys) = keys
        objectives, constraints = np.stack([idx * 0.5, -keys], axis=1), None
    else:
        objectives, constraints = (-(idx * 0.25))[:, None].copy(), keys[:, None].copy()
    objectives[failed, :] = np.nan
    if constraints is not None:
        constraints[failed, :] = np.nan
    return objectives, constraints


def judge_direct(flt: Any, config: Any, flavour: str, keys: np.ndarray, failed: np.ndarray, first: int, last: int) -> Judgement:
    from ropt.enums import OptimizerExitCode
    from ropt.exceptions import OptimizationAborted

    j = Judgement()
    objectives, constraints = make_inputs(flavour, keys, failed)
    expected = ref.sort_window_weights(keys, failed, config.realizations.weights, first, last)
    before = (objectives.tobytes(), None if constraints is None else constraints.tobytes())
    try:
        weights = flt.get_realization_weights(objectives, constraints)
        raised = None
    except Exception as exc:  # noqa: BLE001
        weights, raised = None, exc
    # the values a filter ranks are shared with the other filters and with the reported results: it must not edit them
    if before != (objectives.tobytes(), None if constraints is None else constraints.tobytes()):
        j.fail(f"filter-modified-its-input:{flavour}", failed=failed)
    if not np.any(expected > 0):
        j.outcome = "empty-selection"
        if not (isinstance(raised, OptimizationAborted) and raised.exit_code == OptimizerExitCode.TOO_FEW_REALIZATIONS):
            j.fail(
                "empty-selection-not-TOO_FEW:" + (exception_name(raised) if raised is not None else "returned-weights"),
                flavour=flavour, observed=weights, expected=expected,
            )
        return j
    if raised is not None:
        j.outcome = "raised"
        j.fail("unexpected-exception:" + exception_name(raised), flavour=flavour, expected=expected)
        return j
    m = int(np.count_nonzero(~failed))
    j.outcome = f"m={m}/selected={int(np.count_nonzero(expected))}"
    weights = np.asarray(weights, dtype=np.float64)
    if weights.shape != expected.shape or not np.array_equal(weights, expected):
        if weights.shape == expected.shape and np.any(weights[failed] != 0):
            j.fail("failed-realization-ranked", flavour=flavour, observed=weights, expected=expected)
        else:
            j.fail(f"window-mismatch:{flavour}", observed=weights, expected=expected, first=first, last=last)
    return j


def judge_window(flavour: str, n: int, first: int, last: int) -> Judgement:
    """Windows outside the ensemble are rejected at configuration time."""
    from ropt.ensemble_evaluator import EnsembleEvaluator
    from ropt.exceptions import ConfigError

    j = Judgement()
    valid = 0 <= first <= last < n
    manager, _ = make_manager()
    try:
        config = validate(build_config(flavour, n, [1.0] * n, first, last))
        EnsembleEvaluator(config, None, lambda x, c: None, manager)
        raised = None
    except Exception as exc:  # noqa: BLE001
        raised = exc
    j.outcome = f"window:{'valid' if valid else 'invalid'}"
    if valid and raised is not None:
        j.fail("valid-window-rejected:" + exception_name(raised), n=n, first=first, last=last)
    if not valid and not isinstance(raised, ConfigError):
        j.fail(
            "invalid-window-accepted" if raised is None else "invalid-window-wrong-exception:" + exception_name(raised),
            n=n, first=first, last=last,
        )
    return j


# ------------------------------------------------------------------ end-to-end filter maps

E2E_WINDOWS = {3: ((0, 1), (1, 2)), 4: ((0, 1), (2, 3)), 2: ((0, 0), (1, 1))}


def e2e_config(n: int, fmap: tuple[int, ...], weights: list[float]) -> dict[str, Any]:
    (f0, l0), (f1, l1) = E2E_WINDOWS[n]
    return {
        "variables": {"initial_values": [0.0]},
        "realizations": {"weights": weights, "realization_min_success": 0},
        # two (identical) estimators with a crossed index map: the weight row of a function is found by its own index,
        # not by its position within the group of functions that share an estimator
        "function_estimators": [{"method": "mean"}, {"method": "mean"}],
        "objectives": {"weights": [1.0, 3.0], "realization_filters": list(fmap[:2]), "function_estimators": [1, 0]},
        "nonlinear_constraints": {
            "lower_bounds": [0.0, -np.inf],
            "upper_bounds": [np.inf, 4.0],
            "realization_filters": list(fmap[2:]),
            "function_estimators": [0, 1],
        },
        "realization_filters": [
            {"method": "sort-objective", "options": {"sort": [0], "first": f0, "last": l0}},
            {"method": "sort-constraint", "options": {"sort": 1, "first": f1, "last": l1}},
        ],
    }


def e2e_table(n: int, perm: tuple[int, ...], seed: int) -> np.ndarray:
    """Values (n, 4): column 0 (objective 0) is the key of filter 0, column 3 (constraint 1) the key of filter 1."""
    keys = key_table(n, seed)
    idx = np.arange(n, dtype=np.float64)
    col0 = keys[list(perm)]
    col3 = keys[list(perm)][::-1] * 0.5 + 0.125  # a different ordering for the second filter
    col1 = 2.0 + idx * idx * 0.25
    col2 = 1.0 - idx * 0.5
    return np.stack([col0, col1, col2, col3], axis=1)


def judge_e2e(n: int, fmap: tuple[int, ...], perm: tuple[int, ...], mask: int, wname: str, seed: int, nan_mode: str = "all") -> Judgement:
    from ropt.ensemble_evaluator import EnsembleEvaluator
    from ropt.enums import OptimizerExitCode
    from ropt.exceptions import OptimizationAborted

    j = Judgement()
    weights = weight_vectors(n)[wname]
    config = validate(e2e_config(n, fmap, weights))
    table = e2e_table(n, perm, seed)
    failed = np.array([(mask >> i) & 1 == 1 for i in range(n)])
    (f0, l0), (f1, l1) = E2E_WINDOWS[n]
    cw = config.realizations.weights
    fw = [
        ref.sort_window_weights(table[:, 0], failed, cw, f0, l0),
        ref.sort_window_weights(table[:, 3], failed, cw, f1, l1),
    ]
    used = sorted({f for f in fmap if f >= 0})
    expect_abort = any(not np.any(fw[f] > 0) for f in used)

    def fn(x: np.ndarray, r: int) -> np.ndarray:
        if nan_mode == "constraint-only" and failed[r]:
            # a realization fails as a whole when ANY of its values is NaN - here only constraint 0, which no filter ranks
            values = table[r].copy()
            values[2] = np.nan
            return values
        return np.where(failed[r], np.nan, table[r])

    manager, _ = make_manager()
    ens = EnsembleEvaluator(config, None, TableEvaluator(fn, 2, 2), manager)
    try:
        (result,) = ens.calculate(np.array([0.0]), compute_functions=True, compute_gradients=False)
        raised = None
    except Exception as exc:  # noqa: BLE001
        result, raised = None, exc
    if expect_abort:
        j.outcome = "e2e:empty-selection"
        if not (isinstance(raised, OptimizationAborted) and raised.exit_code == OptimizerExitCode.TOO_FEW_REALIZATIONS):
            j.fail("e2e-empty-selection-not-TOO_FEW:" + (exception_name(raised) if raised else "returned"), fmap=fmap)
        return j
    if raised is not None:
        j.outcome = "e2e:raised"
        j.fail("e2e-unexpected-exception:" + exception_name(raised), fmap=fmap)
        return j
    j.outcome = f"e2e:map={''.join('n' if f < 0 else str(f) for f in fmap)}"
    rows = {0: result.realizations.objective_weights, 1: result.realizations.constraint_weights}
    for func in range(4):
        f = fmap[func]
        block, row = rows[func // 2], func % 2
        if f >= 0:
            if block is None or not np.array_equal(block[row], fw[f]):
                j.fail("e2e-filtered-row-not-filter-weights", function=func, filter=f,
                       observed=None if block is None else block[row], expected=fw[f], fmap=fmap)
    if np.all(failed):
        j.outcome = "e2e:all-failed"
        return j
    if result.functions is None:
        j.fail("e2e-no-functions", fmap=fmap)
        return j
    observed = list(result.functions.objectives) + list(result.functions.constraints)
    for func in range(4):
        f = fmap[func]
        w = ref.norm_weights(fw[f] if f >= 0 else cw, failed)
        if w is None:
            continue  # no positive-weight success for this (unfiltered) function: value undefined
        expected = ref.mean(np.where(failed, 0.0, table[:, func]), w)
        if not close(observed[func], expected, 1e-9):
            j.fail(
                "e2e-filter-applied-to-wrong-function" if f >= 0 else "e2e-unfiltered-function-not-configured-weights",
                function=func, filter=f, observed=observed[func], expected=expected, fmap=fmap, failed=failed,
            )
    return j


# ------------------------------------------------------------------ enumeration


def shards(tier: str, seed: int) -> list[dict[str, Any]]:
    nmax = 5 if tier == "quick" else 6
    out: list[dict[str, Any]] = []
    for n in range(1, nmax + 1):
        for flavour in FLAVOURS:
            masks = list(range(2**n))
            for group in core.chunked(masks, max(1, len(masks) // (1 if n < 4 else 4 if n < 5 else 16 if n < 6 else 64))):
                out.append({"kind": "direct", "flavour": flavour, "n": n, "masks": group, "seed": seed})
    if tier == "thorough":
        for flavour in FLAVOURS:
            for group in core.chunked(list(range(2**7)), 2):
                out.append({"kind": "direct", "flavour": flavour, "n": 7, "masks": group, "seed": seed})
    out.append({"kind": "window", "nmax": nmax + 1, "seed": seed})
    # beyond the exhaustively enumerated sizes: ONE larger ensemble (n = 20, above the size at which library sort
    # routines switch strategy) with three fixed orderings, no / every single / two double failures, four windows
    for flavour in FLAVOURS:
        out.append({"kind": "large", "flavour": flavour, "n": 20, "seed": seed})
    for n in ((3,) if tier == "quick" else (2, 3, 4)):
        fmaps = list(itertools.product((-1, 0, 1), repeat=4))
        for group in core.chunked(fmaps, 27 if (n < 4 and tier == "quick") else 9 if n < 4 else 3):
            for wname in ("uniform", "ramp", "zero"):
                out.append({"kind": "e2e", "n": n, "fmaps": group, "weights": wname, "seed": seed})
    return out


def case_direct(flavour, n, wname, perm, mask, first, last, seed) -> dict[str, Any]:
    return {"kind": "direct", "flavour": flavour, "n": n, "weights": wname, "perm": list(perm), "mask": mask,
            "first": first, "last": last, "seed": seed}


LARGE_PERMS = [list(range(20)), list(range(19, -1, -1)), [(7 * i + 3) % 20 for i in range(20)]]
LARGE_WINDOWS = [(0, 9), (5, 14), (10, 19), (19, 19)]


def large_cases(flavour: str, seed: int) -> list[dict[str, Any]]:
    masks = [0] + [1 << i for i in range(20)] + [(1 << 0) | (1 << 19), (1 << 7) | (1 << 8)]
    return [{"kind": "direct", "flavour": flavour, "n": 20, "weights": wname, "perm": perm, "mask": mask, "first": first, "last": last, "seed": seed}
            for wname in ("uniform", "ramp") for perm in LARGE_PERMS for mask in masks for first, last in LARGE_WINDOWS]


def run_shard(shard: dict[str, Any]) -> core.ShardResult:
    from ropt.plugins.realization_filter.default import DefaultRealizationFilter

    rec = Recorder(shard)
    if shard["kind"] == "large":
        for case in large_cases(shard["flavour"], shard["seed"]):
            rec.add(("large", shard["flavour"], case["weights"], tuple(case["perm"]), case["mask"], case["first"], case["last"]), case, run_case(case))
        return rec.finish()
    seed = shard["seed"]
    if shard["kind"] == "window":
        for n in range(1, shard["nmax"] + 1):
            for flavour in FLAVOURS:
                for first in range(0, n + 2):
                    for last in range(0, n + 2):
                        j = judge_window(flavour, n, first, last)
                        rec.add(("w", flavour, n, first, last), {"kind": "window", "flavour": flavour, "n": n, "first": first, "last": last}, j)
        return rec.finish()
    if shard["kind"] == "e2e":
        n, wname = shard["n"], shard["weights"]
        for fmap in shard["fmaps"]:
            fmap = tuple(fmap)
            for perm in itertools.permutations(range(n)):
                for mask in range(2**n):
                    for nan_mode in (("all", "constraint-only") if mask else ("all",)):
                        j = judge_e2e(n, fmap, perm, mask, wname, seed, nan_mode)
                        rec.add(("e", n, fmap, perm, mask, wname, nan_mode),
                                {"kind": "e2e", "n": n, "fmap": list(fmap), "perm": list(perm), "mask": mask, "weights": wname, "seed": seed,
                                 "nan_mode": nan_mode}, j)
        return rec.finish()
    n, flavour = shard["n"], shard["flavour"]
    table = key_table(n, seed)
    windows = [(a, b) for a in range(n) for b in range(a, n)]
    manager, _ = make_manager()
    # The filters of ALL weight vectors are created one after the other through the plug-in manager in this process
    # (same method, same options, same ensemble size - only the configured weights differ).
    built = {}
    for wname, weights in weight_vectors(n).items():
        for first, last in windows:
            config = validate(build_config(flavour, n, weights, first, last))
            method = config.realization_filters[0].method
            built[(wname, first, last)] = (config, manager.get_plugin("realization_filter", method=method).create(config, 0))
    for mask in shard["masks"]:
        failed = np.array([(mask >> i) & 1 == 1 for i in range(n)])
        for perm in itertools.permutations(range(n)):
            keys = table[list(perm)]
            for (wname, first, last), (config, flt) in built.items():
                j = judge_direct(flt, config, flavour, keys, failed, first, last)
                rec.add(("d", flavour, n, wname, mask, perm, first, last),
                        lambda: case_direct(flavour, n, wname, perm, mask, first, last, seed), j)
    return rec.finish()


def run_case(case: dict[str, Any]) -> Judgement:
    from ropt.plugins.realization_filter.default import DefaultRealizationFilter

    if case["kind"] == "window":
        return judge_window(case["flavour"], case["n"], case["first"], case["last"])
    if case["kind"] == "e2e":
        return judge_e2e(case["n"], tuple(case["fmap"]), tuple(case["perm"]), case["mask"], case["weights"], case["seed"],
                         case.get("nan_mode", "all"))
    n = case["n"]
    config = validate(build_config(case["flavour"], n, weight_vectors(n)[case["weights"]], case["first"], case["last"]))
    manager, _ = make_manager()
    flt = manager.get_plugin("realization_filter", method=config.realization_filters[0].method).create(config, 0)
    failed = np.array([(case["mask"] >> i) & 1 == 1 for i in range(n)])
    keys = key_table(n, case["seed"])[list(case["perm"])]
    return judge_direct(flt, config, case["flavour"], keys, failed, case["first"], case["last"])


if __name__ == "__main__":
    sys.exit(core.main(sys.modules[__name__]))
