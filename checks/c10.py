"""C10 - perturbed variables honour magnitudes and boundary-type semantics."""

from __future__ import annotations

import itertools
import sys
from typing import Any

import numpy as np

from mc import core
from mc.core import Judgement, Recorder
from mc.harness import TableEvaluator, make_manager, make_transforms, validate

PROPERTY = "C10"
RULE = (
    "E1 product enumeration on the gradient path with an injected deterministic design sampler, V=2 with ALL assignments "
    "of per-variable settings: bounds kind {both, lower only, upper only, none} x boundary type {NONE, TRUNCATE_BOTH, "
    "MIRROR_BOTH} x perturbation type {absolute, relative (finite bounds)} x magnitude {0.125, 1} x position of x {at lower, "
    "quarter, middle, at upper} x 11 sample values from 0 to overshoots of many widths (one perturbation per sample, the "
    "second variable gets the samples in a different order), with and without a VariableScaler. Oracle in the user domain: "
    "raw = x + m*s; NONE -> raw; TRUNCATE -> clip; MIRROR -> raw if inside, the single reflection if it lands inside, "
    "otherwise the folded value or a bound value is required. Checked on the evaluator rows and on reported perturbed_variables; the injected sampler returns the same stored array on every call and a second evaluation on the same evaluator must reproduce the first. "
    "Plus: three injected samplers with distinct designs and EVERY assignment of sampler ids to the variables (ids may skip "
    "one) x boundary types: each variable is perturbed by its assigned sampler; three variables with EVERY assignment over {no sampler, 0, 1, 2}; a variable with coinciding bounds and a relative magnitude is not moved; three variables with EVERY assignment of "
    "absolute / relative types and distinct magnitudes and ranges, also with ONE validated GradientConfig object reused by "
    "two configurations with different bounds. Every case is non-trivial."
)
ASSUMPTIONS = [
    "dyadic bounds/magnitudes/samples so that x + m*s is exact without a scaler (compared with ==); 1e-12 relative with a scaler",
    "multi-width mirror overshoots: the statement does not say how often the reflection is repeated, so the repeated "
    "reflection (fold) OR a bound value (give-up by clipping) are both accepted, nothing else",
]
BOUNDS = {"quick": "per-variable alphabet of 120 settings, all 120x120 pairs x scaler on/off", "thorough": "same, plus a second scaler and the reversed sample pairing"}

SAMPLES = [0.0, 0.25, -0.25, 1.0, -1.0, 3.0, -3.0, 7.5, -7.5, 40.0, -40.0]
BKINDS = ["both", "lower", "upper", "none"]
LB, UB = -1.0, 3.0


def var_settings() -> list[dict[str, Any]]:
    out = []
    for bk in BKINDS:
        for btype in (1, 2, 3):
            for ptype in (1, 2):
                if ptype == 2 and bk != "both":
                    continue
                for mag in (0.125, 1.0):
                    for pos in range(4):
                        out.append({"bk": bk, "btype": btype, "ptype": ptype, "mag": mag, "pos": pos})
    return out


SETTINGS = var_settings()


def bounds_of(bk: str) -> tuple[float, float]:
    return (LB if bk in ("both", "lower") else -np.inf, UB if bk in ("both", "upper") else np.inf)


def x_of(setting: dict[str, Any]) -> float:
    lb, ub = bounds_of(setting["bk"])
    pos = setting["pos"]
    if setting["bk"] == "both":
        return [lb, lb + (ub - lb) / 4, (lb + ub) / 2, ub][pos]
    if setting["bk"] == "lower":
        return [lb, lb + 0.25, lb + 0.5, lb + 2.0][pos]
    if setting["bk"] == "upper":
        return [ub, ub - 0.25, ub - 0.5, ub - 2.0][pos]
    return [0.0, 0.5, -1.25, 2.0][pos]


def expected_value(setting: dict[str, Any], x: float, s: float) -> tuple[str, float, float, float]:
    """-> (rule, value, lb, ub): rule in {'exact', 'within'}."""
    lb, ub = bounds_of(setting["bk"])
    m = setting["mag"] if setting["ptype"] == 1 else setting["mag"] * (ub - lb)
    raw = x + m * s
    if setting["btype"] == 1:
        return "exact", raw, lb, ub
    if lb <= raw <= ub:
        return "exact", raw, lb, ub
    if setting["btype"] == 2:
        return "exact", min(max(raw, lb), ub), lb, ub
    refl = 2 * lb - raw if raw < lb else 2 * ub - raw
    if lb <= refl <= ub:
        return "exact", refl, lb, ub
    # several bound widths beyond: repeated reflection (a fold into the interval) or, when the implementation gives up,
    # a bound value; anything else inside the interval is not a reflection of raw at all
    width = ub - lb
    t = (raw - lb) % (2 * width)
    fold = lb + (t if t <= width else 2 * width - t)
    return "fold-or-bound", fold, lb, ub


def judge(case: dict[str, Any]) -> Judgement:
    from ropt.ensemble_evaluator import EnsembleEvaluator
    from ropt.results import GradientResults

    j = Judgement()
    s0, s1 = SETTINGS[case["a"]], SETTINGS[case["b"]]
    settings = [s0, s1]
    P = len(SAMPLES)
    variant = case.get("variant", 0)
    mult = 3 if variant == 0 else 7
    order1 = [(k * mult + 1) % P for k in range(P)]  # a different pairing for variable 1 (3, 7 are coprime with 11)
    design = [[SAMPLES[k], SAMPLES[order1[k]]] for k in range(P)]
    xs = [x_of(s0), x_of(s1)]
    lbs = [bounds_of(s["bk"])[0] for s in settings]
    ubs = [bounds_of(s["bk"])[1] for s in settings]
    config_dict = {
        "variables": {"initial_values": xs, "lower_bounds": lbs, "upper_bounds": ubs},
        "gradient": {
            "number_of_perturbations": P,
            "perturbation_magnitudes": [s["mag"] for s in settings],
            "perturbation_types": [s["ptype"] for s in settings],
            "boundary_types": [s["btype"] for s in settings],
        },
        # the injected sampler keeps its samples and returns the same array on every call (see the second evaluation)
        "samplers": [{"method": "verif/design", "options": {"design": design, "reuse": True}, "shared": True}],
    }
    transforms = None
    if case["scaler"]:
        transforms = (make_transforms(var_scales=[4.0, 0.5], var_offsets=[1.0, -0.25]) if variant == 0
                      else make_transforms(var_scales=[0.25, 8.0], var_offsets=[-2.0, 0.5]))
    config = validate(config_dict, transforms)
    manager, _ = make_manager()
    evaluator = TableEvaluator(lambda x, r: [float(x.sum())], 1, 0)
    ens = EnsembleEvaluator(config, transforms, evaluator, manager)
    x_opt = np.array(config.variables.initial_values)
    results = ens.calculate(x_opt, compute_functions=True, compute_gradients=True)
    gres = next(item for item in results if isinstance(item, GradientResults))
    rows = evaluator.calls[0].variables[1:]  # first row is the unperturbed vector (R=1)
    reported = np.asarray(gres.evaluations.perturbed_variables)[0]
    if transforms is not None:
        reported = transforms.variables.from_optimizer(reported)
    tol = 1e-12 if case["scaler"] else 0.0
    for name, mat in (("evaluator-rows", rows), ("reported", reported)):
        if mat.shape != (P, 2):
            j.fail("bad-shape", where=name, shape=mat.shape)
            continue
        for k in range(P):
            for v in range(2):
                s = design[k][v]
                rule, value, lb, ub = expected_value(settings[v], xs[v], s)
                got = float(mat[k, v])
                bt = {1: "NONE", 2: "TRUNCATE", 3: "MIRROR"}[settings[v]["btype"]]
                if rule == "exact":
                    if abs(got - value) > tol * (1 + abs(value)):
                        raw = xs[v] + (settings[v]["mag"] if settings[v]["ptype"] == 1 else settings[v]["mag"] * (ub - lb)) * s
                        inside = lb <= raw <= ub
                        sig = f"{bt}:{'inside-value-altered' if inside else 'outside-value-wrong'}"
                        j.fail(sig, where=name, variable=v, x=xs[v], sample=s, observed=got, expected=value, setting=settings[v])
                elif not (lb - tol * (1 + abs(lb)) <= got <= ub + tol * (1 + abs(ub))):
                    j.fail(f"{bt}:outside-bounds", where=name, variable=v, x=xs[v], sample=s, observed=got, lb=lb, ub=ub)
                elif rule == "fold-or-bound":
                    t2 = max(tol, 1e-12)
                    if not any(abs(got - c) <= t2 * (1 + abs(c)) for c in (value, lb, ub)):
                        j.fail(f"{bt}:multi-width-overshoot-neither-reflected-nor-bound", where=name, variable=v, x=xs[v], sample=s,
                               observed=got, fold=value, lb=lb, ub=ub)
    # a second gradient evaluation at the same point on the same evaluator: same samples, same perturbed vectors
    results2 = ens.calculate(x_opt, compute_functions=True, compute_gradients=True)
    gres2 = next(item for item in results2 if isinstance(item, GradientResults))
    if not np.array_equal(np.asarray(gres2.evaluations.perturbed_variables), np.asarray(gres.evaluations.perturbed_variables)):
        j.fail("second-evaluation-perturbed-differently", first=np.asarray(gres.evaluations.perturbed_variables)[0][:3],
               second=np.asarray(gres2.evaluations.perturbed_variables)[0][:3])
    if not np.array_equal(evaluator.calls[1].variables, evaluator.calls[0].variables):
        j.fail("second-evaluation-rows-differ")
    # functions at a nearly tied point (2e-6 relative away, inside the bounds), then a gradient-only request at the point
    # itself: the perturbations are built around the requested point, not around the nearby one
    delta = 2e-6 * (1.0 + np.abs(x_opt))
    ub_opt = np.asarray(config.variables.upper_bounds, dtype=np.float64)
    nearby = np.where(x_opt + delta <= ub_opt, x_opt + delta, x_opt - delta)
    ens.calculate(nearby, compute_functions=True, compute_gradients=False)
    results3 = ens.calculate(x_opt, compute_functions=False, compute_gradients=True)
    gres3 = next(item for item in results3 if isinstance(item, GradientResults))
    if not np.array_equal(np.asarray(gres3.evaluations.perturbed_variables), np.asarray(gres.evaluations.perturbed_variables)):
        j.fail("gradient-after-functions-at-a-nearby-point-perturbed-differently", first=np.asarray(gres.evaluations.perturbed_variables)[0][:3],
               later=np.asarray(gres3.evaluations.perturbed_variables)[0][:3])
    j.outcome = f"bt={s0['btype']}{s1['btype']}/bk={s0['bk'][0]}{s1['bk'][0]}/pt={s0['ptype']}{s1['ptype']}"
    return j


DESIGNS3 = [[[1.0, 2.0], [-0.5, 0.25], [3.0, -1.0]], [[0.5, -4.0], [2.0, 1.0], [-1.0, 0.75]], [[-2.0, 0.125], [0.25, 3.0], [1.5, -0.5]]]


def judge_multi(case: dict[str, Any]) -> Judgement:
    """Three injected samplers with distinct designs; EVERY assignment of samplers to the two variables (ids may skip)."""
    from ropt.ensemble_evaluator import EnsembleEvaluator
    from ropt.results import GradientResults

    j = Judgement()
    assign = case["assign"]
    btypes = case["btypes"]
    x = [0.5, -0.25]
    config_dict = {
        "variables": {"initial_values": x, "lower_bounds": [-1.0, -1.0], "upper_bounds": [2.0, 2.0]},
        "gradient": {"number_of_perturbations": 3, "perturbation_magnitudes": [0.5, 0.25], "boundary_types": btypes, "samplers": assign},
        "samplers": [{"method": "verif/design", "options": {"design": [[row[v] for v in range(2) if assign[v] == k] for row in DESIGNS3[k]]},
                      "shared": True} for k in range(3)],
    }
    try:
        config = validate(config_dict)
        manager, _ = make_manager()
        evaluator = TableEvaluator(lambda xx, r: [float(xx.sum())], 1, 0)
        ens = EnsembleEvaluator(config, None, evaluator, manager)
        results = ens.calculate(np.array(x), compute_functions=True, compute_gradients=True)
    except Exception as exc:  # noqa: BLE001
        j.fail(f"multi-sampler-run-raised:{type(exc).__name__}", message=str(exc)[:200], assign=assign)
        return j
    gres = next(item for item in results if isinstance(item, GradientResults))
    reported = np.asarray(gres.evaluations.perturbed_variables)[0]
    rows = evaluator.calls[0].variables[1:]
    for name, mat in (("evaluator-rows", rows), ("reported", reported)):
        for k in range(3):
            for v in range(2):
                raw = x[v] + [0.5, 0.25][v] * DESIGNS3[assign[v]][k][v]
                setting = {"bk": "both", "btype": btypes[v], "ptype": 1, "mag": [0.5, 0.25][v], "pos": 0}
                lb, ub = -1.0, 2.0
                if btypes[v] == 1 or lb <= raw <= ub:
                    exp = raw
                elif btypes[v] == 2:
                    exp = min(max(raw, lb), ub)
                else:
                    exp = 2 * lb - raw if raw < lb else 2 * ub - raw
                if float(mat[k, v]) != exp:
                    j.fail("perturbation-not-from-the-assigned-sampler", where=name, assign=assign, variable=v, observed=float(mat[k, v]), expected=exp)
                    return j
    j.outcome = f"multi:{assign}"
    return j


V3_BOUNDS = ([-1.0, 0.0, -4.0], [3.0, 8.0, 12.0])
V3_MAGS = [0.125, 0.25, 0.0625]
V3_DESIGN = [[1.0, -2.0, 0.5], [-0.5, 0.25, 3.0]]


def expected_v3(x: list[float], ptypes: list[int], lb: list[float], ub: list[float]) -> list[list[float]]:
    out = []
    for row in V3_DESIGN:
        vals = []
        for v in range(3):
            m = V3_MAGS[v] * ((ub[v] - lb[v]) if ptypes[v] == 2 else 1.0)
            raw = x[v] + m * row[v]
            vals.append(min(max(raw, lb[v]), ub[v]))  # TRUNCATE_BOTH
        out.append(vals)
    return out


def run_v3(config_dict: dict[str, Any]) -> Any:
    from ropt.ensemble_evaluator import EnsembleEvaluator
    from ropt.results import GradientResults

    from ropt.config.enopt import EnOptConfig

    config = EnOptConfig.model_validate(config_dict)  # no deep copy: a GradientConfig object in the dict stays shared
    manager, _ = make_manager()
    evaluator = TableEvaluator(lambda xx, r: [float(xx.sum())], 1, 0)
    ens = EnsembleEvaluator(config, None, evaluator, manager)
    results = ens.calculate(np.array(config.variables.initial_values), compute_functions=True, compute_gradients=True)
    gres = next(item for item in results if isinstance(item, GradientResults))
    return np.asarray(gres.evaluations.perturbed_variables)[0], evaluator.calls[0].variables[1:]


def judge_v3(case: dict[str, Any]) -> Judgement:
    """Three variables, EVERY assignment of absolute / relative perturbation types (distinct magnitudes and ranges)."""
    j = Judgement()
    ptypes = case["ptypes"]
    lb, ub = V3_BOUNDS
    x = [0.5, 2.0, 1.0]
    samplers = [{"method": "verif/design", "options": {"design": V3_DESIGN}, "shared": True}]
    gradient = {"number_of_perturbations": 2, "perturbation_magnitudes": V3_MAGS, "perturbation_types": ptypes, "boundary_types": 2}
    base = {"variables": {"initial_values": x, "lower_bounds": lb, "upper_bounds": ub}, "gradient": gradient, "samplers": samplers}
    try:
        if case["reuse"]:
            # ONE validated GradientConfig object is used by two configurations with different bounds
            from ropt.config.enopt import GradientConfig

            shared = GradientConfig.model_validate(dict(gradient))
            lb2, ub2 = [b * 2 - 1 for b in lb], [b * 2 + 5 for b in ub]
            first = run_v3({**base, "gradient": shared})
            second = run_v3({"variables": {"initial_values": x, "lower_bounds": lb2, "upper_bounds": ub2}, "gradient": shared, "samplers": samplers})
            runs = [("first", first, lb, ub), ("second", second, lb2, ub2)]
        else:
            runs = [("only", run_v3(base), lb, ub)]
    except Exception as exc:  # noqa: BLE001
        j.fail(f"v3-run-raised:{type(exc).__name__}", message=str(exc)[:200], ptypes=ptypes)
        return j
    for name, (reported, rows), lo, hi in runs:
        exp = np.array(expected_v3(x, ptypes, lo, hi))
        for where, mat in (("reported", reported), ("evaluator-rows", rows)):
            if not np.array_equal(np.asarray(mat), exp):
                sig = "magnitude-on-wrong-variable-or-stale" if not case["reuse"] else f"reused-gradient-config:{name}-configuration"
                j.fail(sig, where=where, ptypes=ptypes, observed=mat, expected=exp)
                return j
    j.outcome = f"v3:{ptypes}:reuse={case['reuse']}"
    return j


def shards(tier: str, seed: int) -> list[dict[str, Any]]:
    n = len(SETTINGS)
    out = []
    for a in range(n):
        out.append({"a": a, "tier": tier, "seed": seed})
    out.append({"multi": True, "tier": tier, "seed": seed})
    out.append({"v3": True, "tier": tier, "seed": seed})
    return out


def run_shard(shard: dict[str, Any]) -> core.ShardResult:
    rec = Recorder(shard)
    if shard.get("v3"):
        for ptypes in itertools.product((1, 2), repeat=3):
            for reuse in (False, True):
                case = {"v3": True, "ptypes": list(ptypes), "reuse": reuse}
                rec.add(("v3", ptypes, reuse), case, judge_v3(case))
        return rec.finish()
    if shard.get("multi"):
        for assign in itertools.product((0, 1, 2), repeat=2):
            for btypes in itertools.product((1, 2, 3), repeat=2):
                case = {"multi": True, "assign": list(assign), "btypes": list(btypes)}
                rec.add(("multi", assign, btypes), case, judge_multi(case))
        for assign in itertools.product((-1, 0, 1, 2), repeat=3):
            if all(a < 0 for a in assign):
                continue
            case = {"multi3": True, "assign": list(assign)}
            rec.add(("multi3", assign), case, judge_multi3(case))
        for btype in (1, 2, 3):
            for where in (0, 1):
                case = {"point": True, "btype": btype, "where": where}
                rec.add(("point", btype, where), case, judge_point(case))
        return rec.finish()
    a = shard["a"]
    n = len(SETTINGS)
    for b in range(n):
        variants = [(False, 0), (True, 0)] + ([(True, 1), (False, 1)] if shard["tier"] == "thorough" else [])
        for scaler, variant in variants:
            case = {"a": a, "b": b, "scaler": scaler, "variant": variant}
            j = judge(case)
            rec.add((a, b, scaler, variant), case, j)
    return rec.finish()


DESIGNS3V = [[[1.0, 2.0, -1.5], [-0.5, 0.25, 0.75], [3.0, -1.0, 0.5]], [[0.5, -4.0, 1.25], [2.0, 1.0, -0.25], [-1.0, 0.75, 2.5]],
             [[-2.0, 0.125, 1.0], [0.25, 3.0, -3.0], [1.5, -0.5, 0.375]]]


def judge_multi3(case: dict[str, Any]) -> Judgement:
    """Three variables, three injected samplers, EVERY assignment over {-1 (no sampler), 0, 1, 2}; boundary type NONE."""
    from ropt.ensemble_evaluator import EnsembleEvaluator
    from ropt.results import GradientResults

    j = Judgement()
    assign = case["assign"]
    x, mags = [0.5, -0.25, 1.0], [0.5, 0.25, 0.125]
    config_dict = {
        "variables": {"initial_values": x},
        "gradient": {"number_of_perturbations": 3, "perturbation_magnitudes": mags, "boundary_types": 1, "samplers": assign},
        "samplers": [{"method": "verif/design", "options": {"design": [[row[v] for v in range(3) if assign[v] == k] for row in DESIGNS3V[k]]},
                      "shared": True} for k in range(3)],
    }
    try:
        config = validate(config_dict)
        manager, _ = make_manager()
        evaluator = TableEvaluator(lambda xx, r: [float(xx.sum())], 1, 0)
        results = EnsembleEvaluator(config, None, evaluator, manager).calculate(np.array(x), compute_functions=True, compute_gradients=True)
    except Exception as exc:  # noqa: BLE001
        j.fail(f"multi-sampler-run-raised:{type(exc).__name__}", message=str(exc)[:200], assign=assign)
        return j
    reported = np.asarray(next(item for item in results if isinstance(item, GradientResults)).evaluations.perturbed_variables)[0]
    for name, mat in (("evaluator-rows", evaluator.calls[0].variables[1:]), ("reported", reported)):
        for k in range(3):
            for v in range(3):
                exp = x[v] + (mags[v] * DESIGNS3V[assign[v]][k][v] if assign[v] >= 0 else 0.0)
                if float(mat[k, v]) != exp:
                    j.fail("perturbation-not-from-the-assigned-sampler:three-variables", where=name, assign=assign, variable=v,
                           observed=float(mat[k, v]), expected=exp)
                    return j
    j.outcome = f"multi3:{sum(1 for a in assign if a < 0)}-unassigned"
    return j


def judge_point(case: dict[str, Any]) -> Judgement:
    """A variable whose bounds coincide, with a RELATIVE magnitude: the range is zero, so it is not perturbed at all."""
    from ropt.ensemble_evaluator import EnsembleEvaluator
    from ropt.results import GradientResults

    j = Judgement()
    btype, where = case["btype"], case["where"]
    x = [1.5, 0.5]
    lower, upper = ([1.5, -1.0], [1.5, 2.0]) if where == 0 else ([-1.0, 0.5], [4.0, 0.5])
    config = validate({
        "variables": {"initial_values": x, "lower_bounds": lower, "upper_bounds": upper},
        "gradient": {"number_of_perturbations": 3, "perturbation_magnitudes": [0.25, 0.25], "perturbation_types": [2, 2], "boundary_types": btype},
        "samplers": [{"method": "verif/design", "options": {"design": [[1.0, -1.0], [0.5, 2.0], [-3.0, 0.25]]}, "shared": True}],
    })
    manager, _ = make_manager()
    evaluator = TableEvaluator(lambda xx, r: [float(xx.sum())], 1, 0)
    results = EnsembleEvaluator(config, None, evaluator, manager).calculate(np.array(x), compute_functions=True, compute_gradients=True)
    reported = np.asarray(next(item for item in results if isinstance(item, GradientResults)).evaluations.perturbed_variables)[0]
    for name, mat in (("evaluator-rows", evaluator.calls[0].variables[1:]), ("reported", reported)):
        if np.any(mat[:, where] != x[where]):
            j.fail("relative-perturbation-of-a-zero-width-range-moves-the-variable", where=name, btype=btype, observed=mat[:, where], expected=x[where])
    j.outcome = f"point:{btype}:{where}"
    return j


def run_case(case: dict[str, Any]) -> Judgement:
    if case.get("multi3"):
        return judge_multi3(case)
    if case.get("point"):
        return judge_point(case)
    if case.get("multi"):
        return judge_multi(case)
    if case.get("v3"):
        return judge_v3(case)
    return judge(case)


if __name__ == "__main__":
    sys.exit(core.main(sys.modules[__name__]))
