"""C16 - runs are reproducible from configuration and seed alone."""

from __future__ import annotations

import hashlib
import os
import subprocess
import sys
from typing import Any

import numpy as np

from mc import core
from mc.core import Judgement, Recorder
from mc.explore import Chooser, explore
from mc.harness import AffineEnsemble, bytes_of, make_manager

PROPERTY = "C16"
RULE = (
    "E2 deviation-bounded exploration of environment deviations around a run A: before A and at EVERY evaluator call of A a "
    "choice point offers {nothing (default), np.random.seed(0), np.random.seed(12345), draw from the global NumPy generator, "
    "run a complete other optimization B right there with fresh plug-in manager/context, run B sharing A's plug-in manager "
    "and optimizer context, the same two with a B that uses A's sampler methods with explicit options}; ALL executions with "
    "<=1 deviation (quick) / <=2 (thorough) run to completion; plus A executed again on the same manager/context: in a new "
    "plan, on the SAME step object with the configuration dict, and twice on the same step with the same validated "
    "EnOptConfig object. Configurations of A: every built-in sampler method x shared on/off, two samplers, "
    "filter, stddev estimator, mask; slsqp, nelder-mead, differential_evolution with an explicit seed option. Oracle: the "
    "full trace of A (evaluator request arrays, labels, active flags, returned values, all arrays of every delivered "
    "result, exit code) is BYTE-IDENTICAL to the solo run of A. For configurations with several samplers or a filter the solo run is repeated in three separately started interpreters with different PYTHONHASHSEED values and must give the same trace. Separately: changing only gradient.seed changes the "
    "perturbed variables for every stochastic sampler. Every execution is non-trivial."
)
ASSUMPTIONS = [
    "ropt has no threads: 'interleaving of other runs' is realised by running B nested inside an evaluator call of A",
    "the user evaluator is deterministic (quadratic ensemble)",
]
BOUNDS = {"quick": "deviation bound 1, 17 configurations of A", "thorough": "deviation bound 2"}

SAMPLER_METHODS = ["norm", "uniform", "truncnorm", "sobol", "halton", "lhs"]


def ensemble_fn() -> AffineEnsemble:
    slopes = np.array([[[1.0, -2.0, 0.5], [0.5, 1.5, -1.0]], [[-0.75, 0.25, 2.0], [2.0, -1.0, 0.25]], [[0.25, 0.5, -0.5], [1.0, 1.0, 1.0]]])
    offsets = np.array([[0.5, -1.0], [1.25, 0.75], [-0.5, 0.25]])
    return AffineEnsemble(slopes, offsets, quad=[0.5, 0.25])


def configs() -> list[dict[str, Any]]:
    out = []
    for method in SAMPLER_METHODS:
        for shared in (False, True):
            out.append({"name": f"slsqp:{method}:shared={shared}", "optimizer": "slsqp", "samplers": [(method, shared)]})
    out.append({"name": "slsqp:two-samplers", "optimizer": "slsqp", "samplers": [("norm", False), ("sobol", True)], "assign": [0, 1, 0]})
    out.append({"name": "slsqp:filter+stddev+mask", "optimizer": "slsqp", "samplers": [("lhs", False)], "filter": True, "stddev": True,
                "mask": [True, False, True]})
    out.append({"name": "nelder-mead", "optimizer": "nelder-mead", "samplers": [("norm", False)]})
    out.append({"name": "de:seeded", "optimizer": "differential_evolution", "samplers": [("norm", False)]})
    out.append({"name": "de:seeded:parallel", "optimizer": "differential_evolution", "samplers": [("norm", False)], "parallel": True})
    # boundary seeds: 0 is an explicit seed like any other, for the optimizer option and for the gradient seed
    out.append({"name": "de:seed0", "optimizer": "differential_evolution", "samplers": [("norm", False)], "de_seed": 0})
    out.append({"name": "slsqp:uniform:gseed0", "optimizer": "slsqp", "samplers": [("uniform", False)], "gseed": 0})
    # an explicit seed may also be a generator object (SciPy advances it): two runs of the same configuration still agree
    out.append({"name": "de:seed-generator", "optimizer": "differential_evolution", "samplers": [("norm", False)], "de_seed": "generator"})
    # two different quasi-Monte-Carlo samplers draw from the shared generator when they are constructed: their
    # construction order must not depend on anything but the configuration (see the separate-interpreter runs)
    out.append({"name": "slsqp:two-qmc", "optimizer": "slsqp", "samplers": [("sobol", False), ("halton", True)], "assign": [0, 1, 0]})
    out.append({"name": "slsqp:two-qmc-b", "optimizer": "slsqp", "samplers": [("lhs", False), ("sobol", False)], "assign": [1, 0, 1]})
    return out


def build(cfg: dict[str, Any], seed: int) -> dict[str, Any]:
    optimizer: dict[str, Any] = {"method": cfg["optimizer"]}
    if cfg["optimizer"] == "slsqp":
        optimizer["options"] = {"maxiter": 2}
    elif cfg["optimizer"] == "nelder-mead":
        optimizer["options"] = {"maxiter": 3}
    else:
        de_seed = cfg.get("de_seed", 77)
        optimizer["options"] = {"maxiter": 1, "popsize": 2, "seed": np.random.default_rng(77) if de_seed == "generator" else de_seed}
        optimizer["parallel"] = bool(cfg.get("parallel"))
    config: dict[str, Any] = {
        "variables": {"initial_values": [0.5, -0.25, 1.0], "lower_bounds": [-5.0] * 3, "upper_bounds": [5.0] * 3},
        "realizations": {"weights": [1.0, 2.0, 1.0]},
        "gradient": {"number_of_perturbations": 4, "perturbation_magnitudes": 0.05, "seed": seed},
        "samplers": [{"method": m, "shared": s} for m, s in cfg["samplers"]],
        "optimizer": optimizer,
        "nonlinear_constraints": {"lower_bounds": [-100.0], "upper_bounds": [100.0]},
    }
    if cfg["optimizer"] == "nelder-mead":
        config.pop("nonlinear_constraints")
    if "assign" in cfg:
        config["gradient"]["samplers"] = cfg["assign"]
    if cfg.get("mask"):
        config["variables"]["mask"] = cfg["mask"]
    if cfg.get("filter"):
        config["realization_filters"] = [{"method": "sort-objective", "options": {"sort": [0], "first": 0, "last": 1}}]
        config["objectives"] = {"weights": [1.0], "realization_filters": [0]}
    if cfg.get("stddev") and "nonlinear_constraints" in config:
        config["function_estimators"] = [{"method": "mean"}, {"method": "stddev"}]
        config["nonlinear_constraints"]["function_estimators"] = [1]
    return config


class Env:
    """Evaluator of run A; environment deviations are injected at its calls."""

    def __init__(self, chooser: Chooser | None, n_con: int) -> None:
        self.chooser = chooser
        self.fn = ensemble_fn()
        self.n_con = n_con
        self.trace: list[Any] = []
        self.in_b = False
        self.manager: Any = None
        self.context: Any = None
        self.n_calls = 0

    def deviate(self, label: str) -> None:
        if self.chooser is None or self.in_b:
            return
        choice = self.chooser.choose(8, label)
        if choice == 1:
            np.random.seed(0)
        elif choice == 2:
            np.random.seed(12345)
        elif choice == 3:
            np.random.random(7)
            np.random.standard_normal(3)
        elif choice in (4, 5, 6, 7):
            self.in_b = True
            try:
                run_b(self, shared=choice in (5, 7), explicit_options=choice in (6, 7))
            finally:
                self.in_b = False

    def __call__(self, variables: np.ndarray, context: Any) -> Any:
        from ropt.evaluator import EvaluatorResult

        if not self.in_b:
            self.deviate(f"call{self.n_calls}")
            self.n_calls += 1
        n_rows = variables.shape[0]
        n_con = 1 if context.config.nonlinear_constraints is not None else 0
        objectives = np.zeros((n_rows, 1))
        constraints = np.zeros((n_rows, n_con)) if n_con else None
        for i in range(n_rows):
            values = self.fn(np.asarray(variables[i], dtype=np.float64), int(context.realizations[i]))
            objectives[i, 0] = values[0]
            if constraints is not None:
                constraints[i, 0] = values[1]
        if not self.in_b:
            self.trace.append(("call", bytes_of(variables), bytes_of(context.realizations), bytes_of(context.perturbations),
                               bytes_of(context.active_objectives), bytes_of(context.active_constraints), bytes_of(objectives), bytes_of(constraints)))
        return EvaluatorResult(objectives=objectives, constraints=constraints)


def result_bytes(res: Any) -> list[Any]:
    out: list[Any] = [type(res).__name__]
    for fname in ("evaluations", "realizations", "functions", "gradients", "constraint_info"):
        field = getattr(res, fname, None)
        if field is None:
            out.append((fname, None))
            continue
        for name in getattr(field, "__dataclass_fields__", {}):
            value = getattr(field, name)
            if isinstance(value, np.ndarray):
                out.append((f"{fname}.{name}", str(value.dtype), value.shape, bytes_of(value)))
    return out


def run_b(env: Env, shared: bool, explicit_options: bool = False) -> None:
    """A complete other optimization (different method, sampler and seed)."""
    from ropt.plan import OptimizerContext, Plan

    if explicit_options:
        # the same sampler methods as A may use, but with explicit (non-default) options
        config_b: dict[str, Any] = {
            "variables": {"initial_values": [0.1, 0.2, 0.3]},
            "realizations": {"weights": [1.0, 1.0, 1.0]},
            "gradient": {"number_of_perturbations": 3, "seed": 17, "perturbation_magnitudes": 0.1, "samplers": [0, 1, 2]},
            "samplers": [{"method": "uniform", "options": {"loc": -0.25, "scale": 0.5}},
                         {"method": "truncnorm", "options": {"a": -3.0, "b": 3.0}},
                         {"method": "norm", "options": {"scale": 2.0}}],
            "optimizer": {"method": "slsqp", "options": {"maxiter": 1}},
        }
        context = env.context if shared else OptimizerContext(evaluator=env, plugin_manager=make_manager()[0])
        plan_b = Plan(context)
        plan_b.run_step(plan_b.add_step("optimizer"), config=config_b)
        return
    config = {
        "variables": {"initial_values": [0.1, 0.2, 0.3]},
        "realizations": {"weights": [1.0, 1.0, 1.0]},
        "gradient": {"number_of_perturbations": 3, "seed": 991, "perturbation_magnitudes": 0.1},
        "samplers": [{"method": "sobol"}, {"method": "uniform"}],
        "optimizer": {"method": "slsqp", "options": {"maxiter": 2}},
    }
    config["gradient"]["samplers"] = [0, 1, 1]
    if shared:
        context = env.context
    else:
        manager, _ = make_manager()
        context = OptimizerContext(evaluator=env, plugin_manager=manager)
    plan = Plan(context)
    step = plan.add_step("optimizer")
    plan.run_step(step, config=config)


def run_a(cfg: dict[str, Any], seed: int, chooser: Chooser | None, *, twice: bool = False) -> dict[str, Any]:
    from ropt.enums import EventType
    from ropt.plan import OptimizerContext, Plan

    config = build(cfg, seed)
    env = Env(chooser, 1)
    manager, _ = make_manager()
    context = OptimizerContext(evaluator=env, plugin_manager=manager)
    env.manager, env.context = manager, context
    source_box: dict[str, Any] = {}

    def on_finished(event: Any) -> None:
        if event.source == source_box.get("step"):
            env.trace.append(("results", [result_bytes(r) for r in event.data["results"]]))

    context.add_observer(EventType.FINISHED_EVALUATION, on_finished)
    out: dict[str, Any] = {"error": None}
    try:
        env.deviate("before")
        plan = Plan(context)
        step = plan.add_step("optimizer")
        source_box["step"] = step
        code = plan.run_step(step, config=config)
        env.trace.append(("exit", code.name))
        if twice:
            from ropt.config.enopt import EnOptConfig

            first = list(env.trace)
            out["first"] = first
            out["again"] = {}
            validated = EnOptConfig.model_validate(config)
            for mode in ("new-plan-dict", "same-step-dict", "same-step-object", "same-step-object"):
                env.trace.clear()
                env.n_calls = 0
                if mode == "new-plan-dict":
                    plan2 = Plan(context)
                    step2 = plan2.add_step("optimizer")
                    source_box["step"] = step2
                    code2 = plan2.run_step(step2, config=config)
                else:
                    source_box["step"] = step
                    code2 = plan.run_step(step, config=config if mode == "same-step-dict" else validated)
                env.trace.append(("exit", code2.name))
                key = mode if mode not in out["again"] else mode + ":repeat"
                out["again"][key] = list(env.trace)
            # the same step object after it was used WITH a nested optimization: a later plain run is a plain run
            inner = Plan(context)
            inner_step = inner.add_step("optimizer")
            inner_tracker = inner.add_handler("tracker", sources={inner_step})

            def inner_fn(inner_plan: Any, variables: Any) -> Any:
                inner_plan.run_step(inner_step, config=build(cfg, seed), variables=variables)
                return inner_plan.get(inner_tracker, "results")

            inner.add_function(inner_fn)
            if not cfg.get("parallel"):  # (nested optimization does not support parallel evaluation)
                source_box["step"] = step
                nested_config = build(cfg, seed)
                nested_config["optimizer"]["max_functions"] = 2
                plan.run_step(step, config=nested_config, nested_optimization=inner)
                env.trace.clear()
                env.n_calls = 0
                code3 = plan.run_step(step, config=config)
                env.trace.append(("exit", code3.name))
                out["again"]["same-step-after-a-nested-run"] = list(env.trace)
            # the same plug-in manager after it gained a prioritized sampler plug-in: the run equals the run on a fresh
            # manager that holds the same plug-ins
            traces = []
            for reused in (False, True):
                mgr = manager if reused else make_manager()[0]
                mgr.add_plugin("sampler", "verif-constant", _constant_sampler_plugin(), prioritize=True)
                ctx = context if reused else OptimizerContext(evaluator=env, plugin_manager=mgr)
                if not reused:
                    ctx.add_observer(EventType.FINISHED_EVALUATION, on_finished)
                env.trace.clear()
                env.n_calls = 0
                plan4 = Plan(ctx)
                step4 = plan4.add_step("optimizer")
                source_box["step"] = step4
                code4 = plan4.run_step(step4, config=config)
                env.trace.append(("exit", code4.name))
                traces.append(list(env.trace))
            out["prioritized"] = traces
    except Exception as exc:  # noqa: BLE001
        out["error"] = f"{type(exc).__name__}:{str(exc)[:150]}"
    out["trace"] = list(env.trace)
    return out


def _constant_sampler_plugin() -> Any:
    """A sampler plug-in that claims every built-in method name and returns constant samples."""
    from ropt.plugins.sampler.base import Sampler, SamplerPlugin

    class ConstantSampler(Sampler):
        def __init__(self, enopt_config: Any, sampler_index: int, mask: Any, rng: Any) -> None:
            self._config, self._mask = enopt_config, mask

        def generate_samples(self) -> Any:
            config = self._config
            shape = (config.realizations.weights.size, config.gradient.number_of_perturbations, config.variables.initial_values.size)
            samples = np.zeros(shape)
            samples[..., slice(None) if self._mask is None else self._mask] = 0.25
            return samples

    class ConstantSamplerPlugin(SamplerPlugin):
        def create(self, enopt_config: Any, sampler_index: int, mask: Any, rng: Any) -> Any:
            return ConstantSampler(enopt_config, sampler_index, mask, rng)

        def is_supported(self, method: str) -> bool:
            return method.lower() in SAMPLER_METHODS

    return ConstantSamplerPlugin()


_SOLO: dict[Any, Any] = {}


def solo(cfg_index: int, seed: int) -> dict[str, Any]:
    key = (cfg_index, seed)
    if key not in _SOLO:
        np.random.seed(424242)
        _SOLO[key] = run_a(configs()[cfg_index], seed, None)
    return _SOLO[key]


def first_diff(a: list[Any], b: list[Any]) -> str:
    for k, (x, y) in enumerate(zip(a, b)):
        if x != y:
            return f"entry {k} ({x[0]})"
    return f"length {len(a)} vs {len(b)}"


def judge(case: dict[str, Any], run: dict[str, Any] | None = None) -> Judgement:
    j = Judgement()
    cfg = configs()[case["cfg"]]
    seed = case["seed"]
    reference = solo(case["cfg"], seed)
    if reference["error"] is not None:
        j.fail("solo-run-raised", error=reference["error"], config=cfg["name"])
        return j
    if case["kind"] == "deviation":
        if run is None:
            run = run_a(cfg, seed, Chooser(prefix=list(case["choices"])))
        kinds = sorted({c for c in case["choices"] if c})
        names = {1: "seed0", 2: "seed12345", 3: "global-draw", 4: "other-run-fresh", 5: "other-run-shared",
                 6: "other-run-explicit-options-fresh", 7: "other-run-explicit-options-shared"}
        label = "+".join(names[k] for k in kinds) or "none"
        j.outcome = f"{cfg['name']}:{label}"
        j.transitions = len(run["trace"])
        if run["error"] is not None:
            j.fail(f"run-raised-under-deviation:{label}", error=run["error"], config=cfg["name"])
        elif run["trace"] != reference["trace"]:
            j.fail(f"trace-differs-from-solo-run:{label}", config=cfg["name"], where=first_diff(reference["trace"], run["trace"]))
    elif case["kind"] == "twice":
        run = run_a(cfg, seed, None, twice=True)
        j.outcome = f"{cfg['name']}:twice"
        j.transitions = len(run["trace"])
        if run["error"] is not None:
            j.fail("second-run-raised", error=run["error"], config=cfg["name"])
        elif run["first"] != reference["trace"]:
            j.fail("first-run-differs-from-solo", config=cfg["name"])
        else:
            for mode, trace in run["again"].items():
                if trace != reference["trace"]:
                    j.fail(f"rerun-differs:{mode}", config=cfg["name"], where=first_diff(reference["trace"], trace))
            fresh_trace, reused_trace = run["prioritized"]
            if fresh_trace != reused_trace:
                j.fail("reused-manager-differs-from-fresh-manager-with-the-same-plug-ins", config=cfg["name"], where=first_diff(fresh_trace, reused_trace))
    elif case["kind"] == "interpreters":
        # the same run in separately started interpreters with different string-hash salts
        j.outcome = f"{cfg['name']}:separate-interpreters"
        mine = trace_digest(reference["trace"])
        for salt in ("1", "2", "3"):
            env = dict(os.environ, PYTHONHASHSEED=salt)
            proc = subprocess.run([sys.executable, "-m", "checks.c16", "--solo-digest", str(case["cfg"]), str(seed)], env=env, cwd=str(core.VERIF),
                                  capture_output=True, text=True, timeout=600, stdin=subprocess.DEVNULL)
            lines = [line for line in proc.stdout.splitlines() if line.startswith("DIGEST ")]
            j.transitions += 1
            if not lines:
                j.fail("separate-interpreter-run-failed", stderr=proc.stderr[-400:], config=cfg["name"])
            elif lines[-1].split()[1] != mine:
                j.fail("trace-differs-between-interpreters", config=cfg["name"], hash_salt=salt)
    else:  # seed sensitivity
        other = solo(case["cfg"], seed + 1)
        j.outcome = f"{cfg['name']}:seed-change"
        grads = [t for t in reference["trace"] if t[0] == "call" and t[3] is not None]
        grads2 = [t for t in other["trace"] if t[0] == "call" and t[3] is not None]
        if not grads:
            j.trivial = True
        elif grads2 and grads[0][1] == grads2[0][1]:
            j.fail("seed-change-does-not-change-perturbations", config=cfg["name"])
    return j


def shards(tier: str, seed: int) -> list[dict[str, Any]]:
    return [{"cfg": k, "tier": tier, "seed": 5 + seed} for k in range(len(configs()))]


def run_shard(shard: dict[str, Any]) -> core.ShardResult:
    rec = Recorder(shard)
    cfg_index, seed = shard["cfg"], shard["seed"]
    cfg = configs()[cfg_index]
    seed = cfg.get("gseed", seed)
    bound = 1 if shard["tier"] == "quick" else 2
    for choices, chooser, run in explore(lambda ch: run_a(cfg, seed, ch), bound):
        case = {"kind": "deviation", "cfg": cfg_index, "seed": seed, "choices": choices}
        rec.add(("d", cfg_index, seed, tuple(choices)), case, judge(case, run))
    kinds = ["twice", "seed"] + (["interpreters"] if len(cfg["samplers"]) > 1 or cfg.get("filter") else [])
    for kind in kinds:
        case = {"kind": kind, "cfg": cfg_index, "seed": seed}
        rec.add((kind, cfg_index, seed), case, judge(case))
    rec.result.extra["deviation_bound"] = bound
    return rec.finish()


def run_case(case: dict[str, Any]) -> Judgement:
    return judge(case)


def trace_digest(trace: list[Any]) -> str:
    return hashlib.sha256(repr(trace).encode()).hexdigest()


if __name__ == "__main__":
    if len(sys.argv) > 3 and sys.argv[1] == "--solo-digest":
        core.quiet_numpy()
        print("DIGEST", trace_digest(solo(int(sys.argv[2]), int(sys.argv[3]))["trace"]))
        sys.exit(0)
    sys.exit(core.main(sys.modules[__name__]))
