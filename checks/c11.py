"""C11 - scaling transforms change optimizer coordinates only, not user-domain behaviour."""

from __future__ import annotations

import copy
import itertools
import sys
from typing import Any

import numpy as np

from mc import core
from mc.core import Judgement, Recorder
from mc.harness import AffineEnsemble, TableEvaluator, close, make_manager, make_transforms, validate

PROPERTY = "C11"
RULE = (
    "E1 differential enumeration: the same user-domain configuration and points are run (i) without transforms and (ii) "
    "with a transform set, through a real evaluator step (batch of points) and a real optimizer step (functions + "
    "gradients requested by a scripted optimizer): variable scaler (scales {0.5,4} x offsets {0,-1,3} per variable, also "
    "scales-only / offsets-only) x objective scaler on/off x constraint scaler {none, 5, 0.25} x variable bounds {none, "
    "both, mixed} x linear rows (three integer coefficient rows x bound kinds eq/lower/upper/two-sided/free) x "
    "perturbations {absolute, relative} x boundary types {NONE, TRUNCATE, MIRROR} x sampler {built-in norm with equal "
    "seed, injected design}; with and without a realization failing in the evaluator step (results without functions). Oracle: evaluator rows equal; user-domain results (variables, per-realization values, "
    "function values, all six difference arrays, three violation arrays) equal to the untransformed run (1e-9); lattice: "
    "user-feasible (bounds, linear) <=> transformed configuration feasible at to_optimizer(x); from_optimizer(to_optimizer(x)) == x. "
    "Weighted objective and gradients are not compared (the statement does not list them). Every case is non-trivial."
)
ASSUMPTIONS = [
    "dyadic scales so the coordinate maps are exact; comparisons at 1e-9 relative; lattice points closer than 1e-9 to a "
    "linear boundary are skipped for the equivalence (equation scaling divides by non-dyadic numbers)",
]
BOUNDS = {"quick": "10 variable-transform settings, full cross with the other alphabets", "thorough": "all 38 variable-transform settings"}

V = 2
X_EVAL = np.array([[0.5, 1.0], [2.5, -0.5]])
X_OPT = np.array([1.5, 0.75])
X_OPT2 = np.array([0.25, -1.25])
LIN_ROWS = [[1.0, 2.0], [0.0, 3.0], [-2.0, 1.0]]
LIN_KINDS = ["eq", "lower", "upper", "two", "free"]
BOUND_KINDS = {"none": None, "both": ([-1.0, -2.0], [3.0, 2.0]), "mixed": ([-1.0, -np.inf], [np.inf, 2.0])}


def var_transform_settings(tier: str) -> list[tuple[Any, Any]]:
    full = []
    per_var = [(s, o) for s in (0.5, 4.0) for o in (0.0, -1.0, 3.0)]
    for a, b in itertools.product(per_var, repeat=2):
        full.append(([a[0], b[0]], [a[1], b[1]]))
    full.append(([0.5, 4.0], None))
    full.append((None, [3.0, -1.0]))
    full.append(([4, 2], [0.0, -1.0]))  # scales written as integers (integer-dtype array)
    if tier == "thorough":
        return full
    picks = [0, 7, 14, 21, 28, 35, 36, 37, 38, 10]
    return [full[i] for i in picks]


def lin_bounds(kind: str, idx: int) -> tuple[float, float]:
    return {"eq": (2.0 + idx, 2.0 + idx), "lower": (0.0, np.inf), "upper": (-np.inf, 4.0 + idx), "two": (-1.0, 5.0), "free": (-np.inf, np.inf)}[kind]


def ensemble_fn() -> AffineEnsemble:
    slopes = np.array([[[1.0, -2.0], [0.5, 1.5], [2.0, 1.0]], [[-0.75, 0.25], [2.0, -1.0], [0.5, -0.5]]])
    offsets = np.array([[0.5, -1.0, 0.25], [1.25, 0.75, -2.0]])
    return AffineEnsemble(slopes, offsets, quad=[0.5, -0.25, 0.125])


def user_config(case: dict[str, Any]) -> dict[str, Any]:
    variables: dict[str, Any] = {"initial_values": X_OPT.tolist()}
    bounds = BOUND_KINDS[case["bounds"]]
    if bounds is not None:
        variables["lower_bounds"], variables["upper_bounds"] = bounds
    config: dict[str, Any] = {
        "variables": variables,
        "realizations": {"weights": [1.0, 3.0]},
        "objectives": {"weights": [1.0, 2.0]},
        "nonlinear_constraints": {"lower_bounds": [-2.0], "upper_bounds": [6.0]},
        "gradient": {
            "number_of_perturbations": 3,
            "perturbation_magnitudes": 0.5 if case["ptype"] == 1 else 0.25,
            "perturbation_types": case["ptype"],
            "boundary_types": case["btype"],
            "seed": 23,
        },
    }
    if case["sampler"] == "design":
        config["samplers"] = [{"method": "verif/design", "options": {"design": [[1.0, -3.0], [-2.5, 0.5], [4.0, 4.0]]}, "shared": True}]
    else:
        config["samplers"] = [{"method": "norm"}]
    if case["lin"] is not None:
        row, kind = case["lin"]
        rows = [LIN_ROWS[row], LIN_ROWS[(row + 1) % 3]]
        kinds = [kind, LIN_KINDS[(LIN_KINDS.index(kind) + 2) % 5]]
        b = [lin_bounds(k, i) for i, k in enumerate(kinds)]
        config["linear_constraints"] = {"coefficients": rows, "lower_bounds": [x[0] for x in b], "upper_bounds": [x[1] for x in b]}
    return config


def run_both_steps(config: dict[str, Any], transforms: Any, fail: bool = False, share: bool = False, reenter: bool = False) -> dict[str, Any]:
    from ropt.enums import EventType
    from ropt.plan import OptimizerContext, Plan

    manager, scripted = make_manager()
    # fail: realization 1 fails in the evaluator step (call 0), so its results carry no functions - their variables and
    # bound / linear differences are still reported and must not depend on the transforms
    state = {"entered": False}

    def hook(call_index: int, _evaluator: Any) -> None:
        # reenter: while the evaluator step is calling the evaluator, the user runs the SAME step again for a baseline
        # value WITHOUT transforms; the outer run still reports in the user domain
        if reenter and not state["entered"]:
            state["entered"] = True
            plan.run_step(ev_step, config=copy.deepcopy(config), transforms=None, variables=X_EVAL[0])

    evaluator = TableEvaluator(ensemble_fn(), 2, 1, fail=(lambda call, row, r, p: [0] if (fail and call == 0 and r == 1) else None), hook=hook)
    context = OptimizerContext(evaluator=evaluator, plugin_manager=manager)
    events: list[Any] = []
    context.add_observer(EventType.FINISHED_EVALUATION, events.append)
    plan = Plan(context)
    ev_step = plan.add_step("evaluator")
    opt_step = plan.add_step("optimizer")
    to_opt = (lambda x: x) if transforms is None or transforms.variables is None else transforms.variables.to_optimizer
    # (a shallow copy keeps configuration OBJECTS placed in the dictionary shared between the runs)
    clone = dict if share else copy.deepcopy
    plan.run_step(ev_step, config=clone(config), transforms=transforms, variables=to_opt(X_EVAL))
    cfg = clone(config)
    # functions + gradients in one request, then - at another point - functions and gradients in separate requests (what
    # a gradient-based back-end does without speculative evaluation)
    cfg["optimizer"] = {"method": "verif/scripted", "options": {"script": [
        [list(to_opt(X_OPT)), True, True], [list(to_opt(X_OPT2)), True, False], [list(to_opt(X_OPT2)), False, True]]}}
    plan.run_step(opt_step, config=cfg, transforms=transforms)
    validated = validate(config, transforms)
    return {"rows": [c.variables for c in evaluator.calls], "events": events, "config": validated}


def collect(events: list[Any]) -> list[tuple[str, Any]]:
    from ropt.results import FunctionResults

    out: list[tuple[str, Any]] = []
    for e_idx, event in enumerate(events):
        for r_idx, res in enumerate(event.data["results"]):
            tag = f"e{e_idx}r{r_idx}:{type(res).__name__}"
            ev = res.evaluations
            out.append((f"{tag}.variables", ev.variables))
            if isinstance(res, FunctionResults):
                out.append((f"{tag}.evaluations.objectives", ev.objectives))
                out.append((f"{tag}.evaluations.constraints", ev.constraints))
                if res.functions is not None:
                    out.append((f"{tag}.functions.objectives", res.functions.objectives))
                    out.append((f"{tag}.functions.constraints", res.functions.constraints))
                info = res.constraint_info
                for name in ("bound_lower", "bound_upper", "linear_lower", "linear_upper", "nonlinear_lower", "nonlinear_upper",
                             "bound_violation", "linear_violation", "nonlinear_violation"):
                    out.append((f"{tag}.constraint_info.{name}", None if info is None else getattr(info, name)))
            else:
                out.append((f"{tag}.perturbed_variables", ev.perturbed_variables))
                out.append((f"{tag}.perturbed_objectives", ev.perturbed_objectives))
                out.append((f"{tag}.perturbed_constraints", ev.perturbed_constraints))
    return out


def feasible(x: np.ndarray, config: Any) -> tuple[bool, float]:
    """-> (feasible w.r.t. bounds and linear constraints, distance to the nearest linear boundary)."""
    ok = bool(np.all(x >= config.variables.lower_bounds) and np.all(x <= config.variables.upper_bounds))
    margin = np.inf
    lin = config.linear_constraints
    if lin is not None:
        values = np.asarray(lin.coefficients) @ x
        for v, lb, ub in zip(values, lin.lower_bounds, lin.upper_bounds):
            scale = 1.0 + abs(v)
            for b in (lb, ub):
                if np.isfinite(b):
                    margin = min(margin, abs(v - b) / scale)
            if v < lb or v > ub:
                ok = False
    return ok, margin


def judge(case: dict[str, Any]) -> Judgement:
    j = Judgement()
    config = user_config(case)
    scales, offsets = case["vscale"], case["voffset"]
    transforms = make_transforms(
        var_scales=scales, var_offsets=offsets,
        obj_scales=[2.0, 4.0] if case["obj"] else None,
        con_scales=[case["con"]] if case["con"] else None,
    )
    try:
        plain = run_both_steps(config, None, bool(case.get("fail")))
    except Exception as exc:  # noqa: BLE001
        j.trivial = True
        j.outcome = f"untransformed-run-raised:{type(exc).__name__}"
        return j
    try:
        trans = run_both_steps(config, transforms, bool(case.get("fail")))
    except Exception as exc:  # noqa: BLE001
        j.fail(f"transformed-run-raised:{type(exc).__name__}", message=str(exc)[:200])
        return j
    j.transitions = 4
    # re-entrant use of the evaluator step from inside the evaluator, without transforms
    if not case.get("fail") and case["sampler"] == "design" and case["ptype"] == 1:
        try:
            plain_re = run_both_steps(config, None, False, reenter=True)
            trans_re = run_both_steps(config, transforms, False, reenter=True)
            j.transitions += 4
            a_items, b_items = collect(plain_re["events"]), collect(trans_re["events"])
            if [n for n, _ in a_items] != [n for n, _ in b_items]:
                j.fail("re-entrant-step:different-result-structure")
            else:
                for (name, a), (_, b) in zip(a_items, b_items):
                    if (a is None) != (b is None) or (a is not None and not close(b, a, 1e-9)):
                        j.fail(f"re-entrant-step:user-domain-result-differs:{name.split(':', 1)[1]}", plain=a, transformed=b)
                        break
        except Exception as exc:  # noqa: BLE001
            j.fail(f"re-entrant-step:raised:{type(exc).__name__}", message=str(exc)[:200])
    # ONE validated LinearConstraintsConfig object placed in the configuration of a transformed run and then of an
    # untransformed run: the second use sees the user's constraints, not what the first validation made of them
    if "linear_constraints" in config and not case.get("fail") and not case["obj"] and not case["con"]:
        from ropt.config.enopt import LinearConstraintsConfig

        shared = dict(config)
        shared["linear_constraints"] = LinearConstraintsConfig.model_validate(copy.deepcopy(config["linear_constraints"]))
        try:
            run_both_steps(shared, transforms, False, share=True)
            again = run_both_steps(shared, None, False, share=True)
            j.transitions += 4
            a_items, b_items = collect(plain["events"]), collect(again["events"])
            for (name, a), (_, b) in zip(a_items, b_items):
                if (a is None) != (b is None) or (a is not None and not close(b, a, 1e-9)):
                    j.fail(f"shared-linear-constraints-object:second-use-differs:{name.split(':', 1)[1]}", first_use=a, second_use=b)
                    break
        except Exception as exc:  # noqa: BLE001
            j.fail(f"shared-linear-constraints-object:raised:{type(exc).__name__}", message=str(exc)[:200])
    # evaluator rows
    if len(plain["rows"]) != len(trans["rows"]):
        j.fail("different-number-of-evaluator-calls", plain=len(plain["rows"]), transformed=len(trans["rows"]))
    else:
        for k, (a, b) in enumerate(zip(plain["rows"], trans["rows"])):
            if not close(b, a, 1e-9):
                which = "perturbed" if k > 0 else "unperturbed"
                j.fail(f"evaluator-rows-differ:{which}", call=k, plain=a, transformed=b, ptype=case["ptype"], btype=case["btype"])
                break
    # user-domain results
    a_items, b_items = collect(plain["events"]), collect(trans["events"])
    if [n for n, _ in a_items] != [n for n, _ in b_items]:
        j.fail("different-result-structure")
    else:
        for (name, a), (_, b) in zip(a_items, b_items):
            if (a is None) != (b is None):
                j.fail(f"user-domain-result-presence-differs:{name.split(':', 1)[1]}")
            elif a is not None and not close(b, a, 1e-9):
                j.fail(f"user-domain-result-differs:{name.split(':', 1)[1]}", plain=a, transformed=b)
    # feasibility equivalence on a lattice and round trip
    cfg_u, cfg_t = plain["config"], trans["config"]
    tv = transforms.variables if transforms is not None else None
    if tv is not None:
        for p in itertools.product([-2.0, -1.0, -0.125, 0.5, 1.0, 2.0, 2.125, 3.0], repeat=2):
            x = np.array(p)
            xo = tv.to_optimizer(x)
            back = tv.from_optimizer(xo)
            if not close(back, x, 1e-12):
                j.fail("round-trip-not-identity", x=x, back=back)
                break
            fu, mu = feasible(x, cfg_u)
            ft, mt = feasible(xo, cfg_t)
            if fu != ft and min(mu, mt) > 1e-9:
                j.fail("feasibility-differs-between-domains", x=x, user=fu, transformed=ft, lin=case["lin"], bounds=case["bounds"])
                break
    j.outcome = f"fail={case.get('fail')}/obj={case['obj']}/con={case['con']}/b={case['bounds']}/lin={case['lin']}/p={case['ptype']}{case['btype']}/{case['sampler']}"
    return j


def shards(tier: str, seed: int) -> list[dict[str, Any]]:
    out = []
    for vt_index in range(len(var_transform_settings(tier))):
        for bounds in BOUND_KINDS:
            out.append({"vt": vt_index, "bounds": bounds, "tier": tier})
    return out


def run_shard(shard: dict[str, Any]) -> core.ShardResult:
    rec = Recorder(shard)
    scales, offsets = var_transform_settings(shard["tier"])[shard["vt"]]
    lins: list[Any] = [None] + [(row, kind) for row in range(3) for kind in LIN_KINDS]
    for obj, con, lin, ptype, btype, sampler in itertools.product((False, True), (None, 5.0, 0.25), lins, (1, 2), (1, 2, 3), ("norm", "design")):
        if ptype == 2 and shard["bounds"] != "both":
            continue
        if shard["tier"] == "quick" and lin is not None and sampler == "norm" and btype == 1:
            continue  # quick: NONE boundary with the built-in sampler only for the unconstrained config (full in thorough)
        for fail in (False, True):
            if fail and (sampler != "design" or btype != 2 or ptype != 1):
                continue  # the failing-realization variant does not depend on the perturbation settings
            case = {"vscale": scales, "voffset": offsets, "obj": obj, "con": con, "bounds": shard["bounds"], "lin": lin,
                    "ptype": ptype, "btype": btype, "sampler": sampler, "fail": fail}
            j = judge(case)
            rec.add((shard["vt"], shard["bounds"], obj, con, lin, ptype, btype, sampler, fail), case, j)
    return rec.finish()


def run_case(case: dict[str, Any]) -> Judgement:
    case = dict(case)
    if case.get("lin") is not None:
        case["lin"] = tuple(case["lin"])
    return judge(case)


if __name__ == "__main__":
    sys.exit(core.main(sys.modules[__name__]))
