"""C18 - validated configurations are canonical, frozen and stable under re-validation."""

from __future__ import annotations

import itertools
import json
import sys
from typing import Any

import numpy as np

from mc import core
from mc.core import Judgement, Recorder
from mc.harness import make_transforms

PROPERTY = "C18"
RULE = (
    "E1 enumeration of configuration dictionaries as a union of FULL cross products over sub-sets of the dimensions "
    "(SLICES in the check; the other dimensions at a default) (V, bounds forms, mask/types forms, realization and objective "
    "weights incl. non-normalized and zero entries, thresholds None / in range / above the counts, perturbation magnitudes "
    "scalar/array, perturbation types absolute/relative/mixed, boundary types scalar/array, linear and non-linear "
    "constraints with scalar/array bounds, optimizer option forms, variable scaler in the validation context) plus a menu "
    "of invalid configurations that must be rejected; for each valid one: canonical-form oracle, a WALK over every model "
    "object and ndarray reachable from the validated object (setattr on every field and an in-place write on every array "
    "must raise), and an E3 closure: all sequences of <=3 operations from {validate(object), validate(dump), "
    "validate(JSON round trip), re-use of the validated sub-objects inside another configuration} must stay in ONE canonical state (field-wise dtype/shape/bytes of the dump). "
    "Every case is non-trivial."
)
ASSUMPTIONS = [
    "dumps are re-validated without a validation context (they already hold optimizer-domain values)",
    "option dictionaries (plain dicts) are not configuration objects or arrays and are not required to be frozen",
]
BOUNDS = {"quick": "3 full sub-products (~2.5k valid configs) + invalid menu, closure depth 3", "thorough": "4 larger full sub-products (~30k configs), closure depth 3"}


DIMS: dict[str, list[Any]] = {
    "V": [1, 3],
    "bounds": ["none", "scalar", "array", "half"],
    "mask": ["none", "scalar", "array"],
    "types": ["none", "scalar", "array"],
    "weights": ["one", "raw", "zero", "scalar"],
    "rms": [None, 0, 2, 99],
    "mag": ["scalar", "array"],
    "ptype": ["abs", "rel", "mixed"],
    "btype": ["scalar", "array"],
    "pms": [None, 1, 99],
    "lin": ["none", "scalar", "array"],
    "nl": ["none", "scalar", "mixed"],
    "opt": [None, {}, {"maxiter": 7}, ["a", "b"]],
    "scaler": [False, True],
}
DEFAULTS = {"V": 3, "bounds": "array", "mask": "none", "types": "none", "weights": "raw", "rms": None, "mag": "scalar",
            "ptype": "abs", "btype": "scalar", "pms": None, "lin": "none", "nl": "none", "opt": None, "scaler": False}
# Each slice is the FULL cross product of the listed dimensions, the others at their default value.
SLICES = {
    "quick": [
        ["V", "bounds", "mag", "ptype", "btype", "pms", "scaler", "lin"],
        ["V", "mask", "types", "weights", "rms"],
        ["V", "lin", "nl", "opt", "scaler", "ptype"],
    ],
    "thorough": [
        ["V", "bounds", "mag", "ptype", "btype", "pms", "scaler", "lin", "weights"],
        ["V", "mask", "types", "weights", "rms", "bounds", "ptype"],
        ["V", "lin", "nl", "opt", "scaler", "ptype", "mag", "mask"],
        ["V", "bounds", "mask", "types", "mag", "ptype", "btype", "scaler", "nl"],
    ],
}


def make_config(sel: dict[str, Any]) -> dict[str, Any]:
    V = sel["V"]
    x0 = [0.5, -1.0, 2.0][:V]
    bound_forms = {
        "none": {},
        "scalar": {"lower_bounds": -4.0, "upper_bounds": 8.0},
        # (the second variable has equal lower and upper bounds: consistent, so accepted)
        "array": {"lower_bounds": [-4.0, -1.0, 0.0][:V], "upper_bounds": [8.0, -1.0, 16.0][:V]},
        "half": {"lower_bounds": [-4.0, -np.inf, 0.0][:V]},
    }
    mask_forms = {"none": None, "scalar": True, "array": [True, False, True][:V]}
    type_forms = {"none": None, "scalar": 1, "array": [1, 2, 1][:V]}
    weight_forms = {"one": [1.0], "raw": [1.0, 1.0, 2.0], "zero": [0.0, 3.0, 1.0], "scalar": 5.0}
    variables: dict[str, Any] = {"initial_values": x0, **bound_forms[sel["bounds"]]}
    if mask_forms[sel["mask"]] is not None:
        variables["mask"] = mask_forms[sel["mask"]]
    if type_forms[sel["types"]] is not None:
        variables["types"] = type_forms[sel["types"]]
    cfg: dict[str, Any] = {"variables": variables}
    cfg["realizations"] = {"weights": weight_forms[sel["weights"]]}
    if sel["rms"] is not None:
        cfg["realizations"]["realization_min_success"] = sel["rms"]
    cfg["objectives"] = {"weights": [2.0, 6.0]}
    grad: dict[str, Any] = {"number_of_perturbations": 3}
    grad["perturbation_magnitudes"] = 0.25 if sel["mag"] == "scalar" else [0.25, 0.5, 0.125][:V]
    grad["perturbation_types"] = {"abs": 1, "rel": 2, "mixed": [2, 1, 2][:V]}[sel["ptype"]]
    grad["boundary_types"] = 2 if sel["btype"] == "scalar" else [1, 2, 3][:V]
    if sel["pms"] is not None:
        grad["perturbation_min_success"] = sel["pms"]
    cfg["gradient"] = grad
    if sel["lin"] != "none":
        coef = [[1.0, 2.0, -1.0][:V], [0.5, 0.0, 4.0][:V]]
        cfg["linear_constraints"] = {
            "coefficients": coef,
            "lower_bounds": 0.0 if sel["lin"] == "scalar" else [0.0, -np.inf],
            "upper_bounds": 2.0 if sel["lin"] == "scalar" else [1.0, 3.0],
        }
    if sel["nl"] != "none":
        cfg["nonlinear_constraints"] = (
            {"lower_bounds": 0.0, "upper_bounds": 1.0} if sel["nl"] == "scalar" else {"lower_bounds": [0.0, -np.inf, 2.0], "upper_bounds": 4.0}
        )
    cfg["optimizer"] = {"method": "slsqp", "max_iterations": 5}
    if sel["opt"] is not None:
        cfg["optimizer"]["options"] = sel["opt"]
    return cfg


def valid_configs(tier: str, seed: int) -> list[dict[str, Any]]:
    out = []
    seen = set()
    for dims in SLICES[tier]:
        for values in itertools.product(*(DIMS[d] for d in dims)):
            sel = dict(DEFAULTS)
            sel.update(dict(zip(dims, values)))
            if sel["ptype"] != "abs" and sel["bounds"] not in ("scalar", "array"):
                continue  # relative perturbations need finite bounds (the rejection is in the invalid menu)
            tags = [str(sel[d]) for d in DIMS]
            key = tuple(tags)
            if key in seen:
                continue
            seen.add(key)
            out.append({"cfg": make_config(sel), "scaler": sel["scaler"], "V": sel["V"], "tags": tags})
    return out


def invalid_configs() -> list[tuple[str, dict[str, Any]]]:
    base = {"variables": {"initial_values": [0.0, 1.0, 2.0]}}

    def with_(**kw: Any) -> dict[str, Any]:
        cfg = json.loads(json.dumps(base))
        for key, value in kw.items():
            cfg[key] = value
        return cfg

    return [
        ("lower>upper", with_(variables={"initial_values": [0.0, 1.0], "lower_bounds": [0.0, 2.0], "upper_bounds": [1.0, 1.0]})),
        ("bounds-shape", with_(variables={"initial_values": [0.0, 1.0, 2.0], "lower_bounds": [0.0, 1.0]})),
        ("mask-shape", with_(variables={"initial_values": [0.0, 1.0, 2.0], "mask": [True, False]})),
        ("types-shape", with_(variables={"initial_values": [0.0, 1.0, 2.0], "types": [1, 2]})),
        ("types-value", with_(variables={"initial_values": [0.0, 1.0, 2.0], "types": [1, 7, 1]})),
        ("weights-zero-sum", with_(realizations={"weights": [0.0, 0.0]})),
        ("objective-weights-zero-sum", with_(objectives={"weights": [0.0]})),
        ("magnitudes-shape", with_(gradient={"perturbation_magnitudes": [0.1, 0.2]})),
        ("boundary-types-shape", with_(gradient={"boundary_types": [1, 2]})),
        ("boundary-types-value", with_(gradient={"boundary_types": [1, 9, 1]})),
        ("perturbation-types-shape", with_(gradient={"perturbation_types": [1, 2]})),
        ("relative-infinite-bounds", with_(gradient={"perturbation_types": 2})),
        ("perturbations-zero", with_(gradient={"number_of_perturbations": 0})),
        ("linear-columns", with_(linear_constraints={"coefficients": [[1.0, 2.0]], "lower_bounds": 0.0, "upper_bounds": 1.0})),
        ("linear-bounds-shape", with_(linear_constraints={"coefficients": [[1.0, 2.0, 3.0]], "lower_bounds": [0.0, 1.0], "upper_bounds": 1.0})),
        ("linear-lower>upper", with_(linear_constraints={"coefficients": [[1.0, 2.0, 3.0]], "lower_bounds": 2.0, "upper_bounds": 1.0})),
        ("linear-lower>upper:one-row-of-two", with_(linear_constraints={"coefficients": [[1.0, 2.0, 3.0], [0.0, 1.0, 0.0]],
                                                                       "lower_bounds": [0.0, 2.0], "upper_bounds": [1.0, 1.0]})),
        ("types-value-low", with_(variables={"initial_values": [0.0, 1.0, 2.0], "types": [1, 0, 1]})),
        ("boundary-types-value-low", with_(gradient={"boundary_types": [1, 0, 1]})),
        ("perturbation-types-value-low", with_(gradient={"perturbation_types": [1, 0, 1]})),
        ("nonlinear-lower>upper", with_(nonlinear_constraints={"lower_bounds": [0.0, 3.0], "upper_bounds": [1.0, 2.0]})),
        ("nonlinear-shape", with_(nonlinear_constraints={"lower_bounds": [0.0, 3.0], "upper_bounds": [1.0, 2.0, 3.0]})),
        ("unknown-field", with_(nonsense={"a": 1})),
        ("negative-min-success", with_(realizations={"weights": [1.0], "realization_min_success": -1})),
    ]


def walk(obj: Any, path: str, models: list[tuple[str, Any]], arrays: list[tuple[str, np.ndarray]]) -> None:
    from pydantic import BaseModel

    if isinstance(obj, BaseModel):
        models.append((path, obj))
        for name in type(obj).model_fields:
            walk(getattr(obj, name), f"{path}.{name}", models, arrays)
    elif isinstance(obj, np.ndarray):
        arrays.append((path, obj))
    elif isinstance(obj, (tuple, list)):
        for k, item in enumerate(obj):
            walk(item, f"{path}[{k}]", models, arrays)


def canon(config: Any) -> tuple[Any, ...]:
    out: list[Any] = []

    def rec(value: Any, path: str) -> None:
        if isinstance(value, dict):
            for key in sorted(value):
                rec(value[key], f"{path}.{key}")
        elif isinstance(value, np.ndarray):
            out.append((path, str(value.dtype), value.shape, np.ascontiguousarray(value).tobytes()))
        elif isinstance(value, (tuple, list)):
            out.append((path, "len", len(value)))
            for k, item in enumerate(value):
                rec(item, f"{path}[{k}]")
        else:
            out.append((path, repr(value)))

    rec(config.model_dump(round_trip=True), "")
    return tuple(out)


def _as_arrays(value: Any, flavour: str, bases: list[np.ndarray], key: str = "") -> Any:
    """Replace every numeric list (1-D or 2-D) of a configuration dictionary by an ndarray the caller keeps a handle on."""
    if isinstance(value, dict):
        return {k: (v if k in ("options", "optimizer", "samplers", "realization_filters", "function_estimators")
                    else _as_arrays(v, flavour, bases, k)) for k, v in value.items()}
    numeric = (isinstance(value, list) and value and key not in ("mask", "types", "samplers", "perturbation_types", "boundary_types")
               and all(isinstance(item, float) or (isinstance(item, list) and item and all(isinstance(x, float) for x in item)) for item in value))
    if not numeric or not np.all(np.isfinite(np.asarray(value, dtype=np.float64))):
        return value
    base = np.array(value, dtype=np.float64)
    bases.append(base)
    if flavour == "writable":
        return base
    view = base.view()
    view.setflags(write=False)
    return view


def first_diff(a: tuple[Any, ...], b: tuple[Any, ...]) -> str:
    for x, y in zip(a, b):
        if x != y:
            return str(x[0])
    return "length"


OPS = ["object", "dump", "json", "parts"]


def apply_op(config: Any, op: str) -> Any:
    from ropt.config.enopt import EnOptConfig

    if op == "object":
        return EnOptConfig.model_validate(config)
    if op == "parts":
        # Re-use the validated sub-objects of this configuration inside ANOTHER configuration (other bounds and initial
        # values): validated objects are frozen, so this must leave them - and hence `config` - unchanged.
        n_var = config.variables.initial_values.size
        other: dict[str, Any] = {
            "variables": {"initial_values": [0.0] * n_var, "lower_bounds": [-16.0] * n_var, "upper_bounds": [48.0] * n_var},
            "gradient": config.gradient,
            "realizations": config.realizations,
            "objectives": config.objectives,
            "optimizer": config.optimizer,
        }
        if config.nonlinear_constraints is not None:
            other["nonlinear_constraints"] = config.nonlinear_constraints
        EnOptConfig.model_validate(other)
        return config
    dump = config.model_dump(round_trip=True)
    if op == "dump":
        return EnOptConfig.model_validate(dump)
    text = json.dumps(dump, default=lambda o: o.tolist() if isinstance(o, np.ndarray) else str(o))
    return EnOptConfig.model_validate(json.loads(text))


def judge_valid(case: dict[str, Any]) -> Judgement:
    from ropt.config.enopt import EnOptConfig

    j = Judgement()
    cfg, V = case["cfg"], case["V"]
    transforms = make_transforms(var_scales=[2.0, 0.5, 4.0][:V], var_offsets=[1.0, 0.0, -1.0][:V]) if case["scaler"] else None
    try:
        config = EnOptConfig.model_validate(_copy(cfg), context=transforms)
    except Exception as exc:  # noqa: BLE001
        j.fail(f"valid-config-rejected:{type(exc).__name__}", message=str(exc)[:300], tags=case["tags"])
        return j
    j.transitions = 1
    # ---- canonical form
    rw_in = np.atleast_1d(np.asarray(cfg["realizations"]["weights"], dtype=np.float64))
    rw = np.asarray(config.realizations.weights)
    if abs(float(rw.sum()) - 1.0) > 1e-12 or not np.allclose(rw, rw_in / rw_in.sum(), rtol=1e-14, atol=0):
        j.fail("realization-weights-not-normalized", observed=rw, given=rw_in)
    ow = np.asarray(config.objectives.weights)
    if not np.allclose(ow, [0.25, 0.75], rtol=1e-14, atol=0):
        j.fail("objective-weights-not-normalized", observed=ow)
    R = rw.size
    rms_in = cfg["realizations"].get("realization_min_success")
    exp_rms = R if rms_in is None else min(rms_in, R)
    if config.realizations.realization_min_success != exp_rms:
        j.fail("realization_min_success-not-clamped", observed=config.realizations.realization_min_success, expected=exp_rms)
    P = config.gradient.number_of_perturbations
    pms_in = cfg["gradient"].get("perturbation_min_success")
    exp_pms = P if pms_in is None else min(pms_in, P)
    if config.gradient.perturbation_min_success != exp_pms:
        j.fail("perturbation_min_success-not-clamped", observed=config.gradient.perturbation_min_success, expected=exp_pms)
    sized = [
        ("variables.lower_bounds", config.variables.lower_bounds, V), ("variables.upper_bounds", config.variables.upper_bounds, V),
        ("variables.mask", config.variables.mask, V), ("variables.types", config.variables.types, V),
        ("gradient.perturbation_magnitudes", config.gradient.perturbation_magnitudes, V),
        ("gradient.perturbation_types", config.gradient.perturbation_types, V),
        ("gradient.boundary_types", config.gradient.boundary_types, V),
    ]
    if config.linear_constraints is not None:
        rows = config.linear_constraints.coefficients.shape[0]
        sized += [("linear.lower_bounds", config.linear_constraints.lower_bounds, rows), ("linear.upper_bounds", config.linear_constraints.upper_bounds, rows)]
    if config.nonlinear_constraints is not None:
        n_nl = 1 if np.ndim(cfg["nonlinear_constraints"]["lower_bounds"]) == 0 else len(cfg["nonlinear_constraints"]["lower_bounds"])
        sized += [("nonlinear.lower_bounds", config.nonlinear_constraints.lower_bounds, n_nl), ("nonlinear.upper_bounds", config.nonlinear_constraints.upper_bounds, n_nl)]
    for name, value, size in sized:
        if value is not None and np.asarray(value).shape != (size,):
            j.fail(f"not-broadcast:{name}", shape=np.asarray(value).shape, expected=size)
    # ---- frozen walk
    models: list[tuple[str, Any]] = []
    arrays: list[tuple[str, np.ndarray]] = []
    walk(config, "config", models, arrays)
    for path, model in models:
        for name in type(model).model_fields:
            try:
                setattr(model, name, getattr(model, name))
            except Exception:  # noqa: BLE001
                continue
            j.fail(f"mutable-model:{type(model).__name__}", path=path, field=name)
            break
    # deleting a field is a mutation too; tried on a second, separately validated object because a successful deletion
    # leaves the object unusable for the rest of the case
    victim_models: list[tuple[str, Any]] = []
    walk(EnOptConfig.model_validate(_copy(cfg), context=transforms), "config", victim_models, [])
    for path, model in victim_models:
        for name in type(model).model_fields:
            try:
                delattr(model, name)
            except Exception:  # noqa: BLE001
                continue
            j.fail(f"deletable-field:{type(model).__name__}", path=path, field=name)
            break
    # a variable transform that reverses the orientation of a variable (negative scale): the configuration is either
    # rejected, or stored with consistent bounds that survive re-validation
    if case["scaler"]:
        reversing = make_transforms(var_scales=[-2.0, 0.5, 4.0][:V], var_offsets=[1.0, 0.0, -1.0][:V])
        try:
            flipped = EnOptConfig.model_validate(_copy(cfg), context=reversing)
        except (ValueError, TypeError):
            flipped = None
        except Exception as exc:  # noqa: BLE001
            j.fail(f"orientation-reversing-transform-raised:{type(exc).__name__}", message=str(exc)[:200])
            flipped = None
        if flipped is not None:
            if np.any(np.asarray(flipped.variables.lower_bounds) > np.asarray(flipped.variables.upper_bounds)):
                j.fail("inconsistent-bounds-accepted:orientation-reversing-transform", lower=flipped.variables.lower_bounds,
                       upper=flipped.variables.upper_bounds)
            else:
                try:
                    EnOptConfig.model_validate(flipped.model_dump(round_trip=True))
                except Exception as exc:  # noqa: BLE001
                    j.fail(f"revalidation-raised:orientation-reversing-transform:{type(exc).__name__}")
        j.transitions += 1
    # the caller's own arrays: a configuration built from ndarrays (writable ones, and read-only views of writable
    # buffers) must not change when the caller later writes to those buffers
    for flavour in ("writable", "read-only-view"):
        bases: list[np.ndarray] = []
        try:
            aliased = EnOptConfig.model_validate(_as_arrays(_copy(cfg), flavour, bases), context=transforms)
        except Exception as exc:  # noqa: BLE001
            j.fail(f"ndarray-input-rejected:{flavour}:{type(exc).__name__}", message=str(exc)[:200])
            continue
        before_write = canon(aliased)
        if before_write != canon(config):
            j.fail(f"ndarray-input-gives-different-configuration:{flavour}", where=first_diff(before_write, canon(config)))
        for base in bases:
            base += 1.0
        after_write = canon(aliased)
        if after_write != before_write:
            j.fail(f"configuration-changes-with-callers-array:{flavour}", where=first_diff(before_write, after_write))
        j.transitions += 1
    for path, array in arrays:
        writable = bool(array.flags.writeable)
        if not writable:
            try:
                array[...] = array
                writable = True
            except ValueError:
                pass
        if writable:
            j.fail(f"writable-array:{path.split('.', 1)[1] if '.' in path else path}", path=path)
    j.transitions += len(models) + len(arrays)
    # ---- idempotence closure (E3 over canonical states, all sequences of <= 3 operations)
    start = canon(config)
    seen = {start}
    frontier: list[tuple[Any, tuple[str, ...]]] = [(config, ())]
    for depth in range(3):
        nxt = []
        for cur, hist in frontier:
            for op in OPS:
                try:
                    new = apply_op(cur, op)
                except Exception as exc:  # noqa: BLE001
                    j.fail(f"revalidation-raised:{op}:{type(exc).__name__}", history=hist + (op,), message=str(exc)[:200])
                    continue
                j.transitions += 1
                state = canon(new)
                before = canon(cur)
                if state != before:
                    # reported at the first operation that leaves the state (later ones are follow-ons)
                    j.fail(f"not-idempotent:{op}:{first_diff(before, state)}", history=hist + (op,))
                seen.add(state)
                nxt.append((new, hist + (op,)))
        frontier = nxt
    # ---- separately validated sub-configuration objects embedded in a configuration stay as they were
    from ropt.config.enopt import GradientConfig, RealizationsConfig, VariablesConfig

    def sub_canon(obj: Any) -> Any:
        out = []
        for name in type(obj).model_fields:
            value = getattr(obj, name)
            out.append((name, (str(value.dtype), value.shape, value.tobytes()) if isinstance(value, np.ndarray) else repr(value)))
        return out

    try:
        parts = {
            "gradient": GradientConfig.model_validate(_copy(cfg["gradient"])),
            "realizations": RealizationsConfig.model_validate(_copy(cfg["realizations"])),
        }
        before = {k: sub_canon(v) for k, v in parts.items()}
        embedded = _copy(cfg)
        embedded.update(parts)
        EnOptConfig.model_validate(embedded, context=transforms)
        j.transitions += 1
        for k, v in parts.items():
            if sub_canon(v) != before[k]:
                j.fail(f"validated-sub-object-changed-by-embedding:{k}", tags=case["tags"])
    except Exception as exc:  # noqa: BLE001
        j.fail(f"embedding-validated-sub-object-raised:{type(exc).__name__}", message=str(exc)[:200])
    j.outcome = f"states={len(seen)}/" + "/".join(case["tags"][6:10])
    return j


def _copy(cfg: Any) -> Any:
    import copy

    return copy.deepcopy(cfg)


def judge_invalid(name: str, cfg: dict[str, Any]) -> Judgement:
    from ropt.config.enopt import EnOptConfig

    j = Judgement(outcome=f"invalid:{name}")
    try:
        EnOptConfig.model_validate(_copy(cfg))
    except (ValueError, TypeError):
        return j
    except Exception as exc:  # noqa: BLE001
        j.fail(f"invalid-config-wrong-exception:{name}:{type(exc).__name__}")
        return j
    j.fail(f"invalid-config-accepted:{name}")
    return j


def shards(tier: str, seed: int) -> list[dict[str, Any]]:
    n = len(valid_configs(tier, seed))
    size = max(1, n // 48)
    out = [{"kind": "valid", "range": [a, min(n, a + size)], "tier": tier, "seed": seed} for a in range(0, n, size)]
    out.append({"kind": "invalid", "tier": tier, "seed": seed})
    return out


def run_shard(shard: dict[str, Any]) -> core.ShardResult:
    rec = Recorder(shard)
    if shard["kind"] == "invalid":
        for name, cfg in invalid_configs():
            rec.add(("invalid", name), {"kind": "invalid", "name": name}, judge_invalid(name, cfg))
        return rec.finish()
    configs = valid_configs(shard["tier"], shard["seed"])
    for index in range(*shard["range"]):
        case = configs[index]
        rec.add(("valid", tuple(case["tags"]), case["V"]), {"kind": "valid", **case}, judge_valid(case))
    return rec.finish()


def run_case(case: dict[str, Any]) -> Judgement:
    if case["kind"] == "invalid":
        cfg = dict(invalid_configs())[case["name"]]
        return judge_invalid(case["name"], cfg)
    case = dict(case)
    case["cfg"] = core.unjson_floats(case["cfg"])
    return judge_valid(case)


if __name__ == "__main__":
    sys.exit(core.main(sys.modules[__name__]))
