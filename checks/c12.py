"""C12 - the tracked best result is the feasible optimum over the whole history."""

from __future__ import annotations

import itertools
import math
import sys
import uuid
from typing import Any

import numpy as np

from mc import bfs as bfs_mod
from mc import core
from mc.core import Judgement, Recorder
from mc.harness import TableEvaluator, make_manager, make_transforms, scipy_entry_points

PROPERTY = "C12"
RULE = (
    "E3 explicit-state BFS on the real DefaultTrackerHandler inside a real Plan, driven through Plan.emit_event with "
    "FINISHED_EVALUATION events built from real result objects. Event alphabet: weighted objective {NaN,0,1,1(tie),1-2^-40,2} x "
    "feasibility {feasible, violation just below tol, bound / linear / non-linear violation just above tol} x kind "
    "{FunctionResults, functions=None, GradientResults} x source {tracked, other}, plus events carrying a pair of results, plus the user resetting the tracker (plan.set(tracker, 'results', None)); "
    "x tolerance {1e-10, None, 0.5, 0.0} x transforms {none, scaling, sign-flip (maximization)} x what {best,last}. State = "
    "(objective of the retained result, reference best, reference last): fully observable, merged; BFS to closure, plus a "
    "no-merge run over all sequences up to a depth. Conformance: every model trace up to a depth is replayed through "
    "BasicOptimizer (scripted SciPy driver, evaluator producing the scripted objective/feasibility sequence) and "
    "BasicOptimizer.results must be the model's best; likewise every sequence of rows (objective x feasibility, or a failed "
    "row) is evaluated by REAL evaluator steps as one batch or split in two steps, or as one batch requested by a parallel optimizer inside a REAL optimizer step, with no / maximization / scaling "
    "transforms, followed by real best and last trackers. Reference: list of feasible, non-NaN, tracked function results; "
    "best = minimum optimizer-domain objective (ties: any tied result), last = most recent. A state is trivial when the "
    "history contains no valid result (the tracker may then hold nothing or a NaN result)."
)
ASSUMPTIONS = [
    "the tracker's future behaviour depends only on the result it retains (argument for merging; backed by the no-merge run)",
    "with scaling transforms violations are either 0 or far above the tolerance in both domains",
    "ties are accepted by value",
]
BOUNDS = {
    "quick": "closure for 24 configurations; no-merge depth 3 over a 16-event alphabet; BasicOptimizer conformance for all traces of length <=3",
    "thorough": "closure for 24 configurations; no-merge depth 4; BasicOptimizer conformance for all traces of length <=4",
}

OBJECTIVES = ["nan", "0", "1", "1b", "1m", "2"]
FEAS = ["ok", "below", "bound", "linear", "nonlinear"]
KINDS = ["func", "nofunc", "grad"]
SOURCES = ["tracked", "other"]


def obj_value(sym: str) -> float:
    # "1m" is lower than "1" by a relative 2**-40 only: still an improvement
    return {"nan": math.nan, "0": 0.0, "1": 1.0, "1b": 1.0, "1m": 1.0 - 2.0**-40, "2": 2.0}[sym]


def single_events() -> list[tuple[Any, ...]]:
    return [("one", (o, f, k, s)) for o in OBJECTIVES for f in FEAS for k in KINDS for s in SOURCES] + [("reset",)]


def pair_events() -> list[tuple[Any, ...]]:
    small = [(o, f, k) for o in ("nan", "0", "2") for f in ("ok", "bound") for k in ("func", "grad")]
    return [("pair", (a[0], a[1], a[2], "tracked"), (b[0], b[1], b[2], "tracked")) for a in small for b in small]


def make_result(sym: tuple[str, str, str, str], tol: float | None, transforms: Any, scaling: bool) -> tuple[Any, Any]:
    """-> (user-domain result, optimizer-domain result) built from real result classes."""
    from ropt.results import (ConstraintInfo, FunctionEvaluations, FunctionResults, Functions, GradientEvaluations,
                              GradientResults, Gradients, Realizations)

    o, f, kind, _ = sym
    x = np.array([0.5, -0.25])
    if kind == "grad":
        opt = GradientResults(
            batch_id=None, metadata={},
            evaluations=GradientEvaluations.create(variables=x, perturbed_variables=np.zeros((1, 1, 2)),
                                                   perturbed_objectives=np.zeros((1, 1, 1)), perturbed_constraints=np.zeros((1, 1, 1))),
            realizations=Realizations(failed_realizations=np.array([False])),
            gradients=Gradients.create(weighted_objective=np.zeros(2), objectives=np.zeros((1, 2)), constraints=np.zeros((1, 2))),
        )
    else:
        value = obj_value(o)
        base = 1.0 if tol is None else tol
        if tol == 0.0:
            # exact-zero tolerance: any positive violation, however small, is infeasible
            amount = {"ok": 0.0, "below": 0.0}.get(f, 1000.0 if scaling else 1e-13)
        elif scaling:
            amount = {"ok": 0.0, "below": 0.0}.get(f, 1000.0 * max(base, 1.0))
        else:
            amount = {"ok": 0.0, "below": 0.5 * base}.get(f, 2.0 * base)
        viol = {"bound": 0.0, "linear": 0.0, "nonlinear": 0.0}
        if f == "below":
            viol = {"bound": amount, "linear": amount, "nonlinear": amount}
        elif f in viol:
            viol[f] = amount
        info = ConstraintInfo(
            bound_lower=np.array([1.0, 1.0]), bound_upper=np.array([viol["bound"] if viol["bound"] else -1.0, -1.0]),
            linear_lower=np.array([2.0]), linear_upper=np.array([viol["linear"] if viol["linear"] else -2.0]),
            nonlinear_lower=np.array([0.5]), nonlinear_upper=np.array([viol["nonlinear"] if viol["nonlinear"] else -0.5]),
        )
        functions = None if kind == "nofunc" else Functions.create(
            weighted_objective=np.array(value), objectives=np.array([value]), constraints=np.array([0.25]))
        opt = FunctionResults(
            batch_id=None, metadata={},
            evaluations=FunctionEvaluations.create(variables=x, objectives=np.array([[value]]), constraints=np.array([[0.25]])),
            realizations=Realizations(failed_realizations=np.array([False])),
            functions=functions, constraint_info=info,
        )
    user = opt if transforms is None else opt.transform_from_optimizer(transforms)
    return user, opt


def is_feasible(f: str, tol: float | None) -> bool:
    return tol is None or f in ("ok", "below")


class Built:
    def __init__(self) -> None:
        self.plan: Any = None
        self.tracker: Any = None
        self.delivered: list[dict[str, Any]] = []  # ordinal -> description
        self.by_id: dict[int, int] = {}
        self.keep: list[Any] = []


_CFG_CACHE: dict[str, Any] = {}


def some_config() -> Any:
    from ropt.config.enopt import EnOptConfig

    if "c" not in _CFG_CACHE:
        _CFG_CACHE["c"] = EnOptConfig.model_validate({"variables": {"initial_values": [0.5, -0.25]}})
    return _CFG_CACHE["c"]


def transforms_for(name: str) -> Any:
    if name == "none":
        return None
    if name == "scaling":
        return make_transforms(var_scales=[2.0, 4.0], obj_scales=[2.0], con_scales=[4.0])
    # sign flip: needs a variable transform as well for the constraint-info back-transform to be exercised
    return make_transforms(maximize=True)


def build(hist: list[Any], what: str, tol: float | None, tname: str) -> Built:
    from ropt.enums import EventType
    from ropt.plan import Event, OptimizerContext, Plan

    b = Built()
    manager, _ = make_manager()
    context = OptimizerContext(evaluator=lambda x, c: None, plugin_manager=manager)
    b.plan = Plan(context)
    src, other = uuid.UUID(int=1), uuid.UUID(int=2)
    b.tracker = b.plan.add_handler("tracker", what=what, constraint_tolerance=tol, sources={src})
    transforms = transforms_for(tname)
    for ev in hist:
        if ev[0] == "reset":
            # the user resets the tracker (as tests/test_plan.py::test_reset_results does); the history starts afresh
            b.plan.set(b.tracker, "results", None)
            b.delivered.append({"sym": ("reset",), "tracked": False, "reset": True})
            continue
        syms = ev[1:]
        users, opts = [], []
        for sym in syms:
            user, opt = make_result(sym, tol, transforms, tname == "scaling")
            users.append(user)
            opts.append(opt)
            ordinal = len(b.delivered)
            b.delivered.append({"sym": sym, "tracked": sym[3] == "tracked"})
            b.by_id[id(user)] = ordinal
            b.keep.append(user)
            b.keep.append(opt)
        data: dict[str, Any] = {"results": tuple(users)}
        if transforms is not None:
            data["transformed_results"] = tuple(opts)
        source = src if syms[0][3] == "tracked" else other
        b.plan.emit_event(Event(event_type=EventType.FINISHED_EVALUATION, config=some_config(), source=source, data=data))
    return b


def reference(b: Built, tol: float | None) -> dict[str, Any]:
    valid = []
    for ordinal, item in enumerate(b.delivered):
        if item.get("reset"):
            valid = []
            continue
        o, f, kind, s = item["sym"]
        if s != "tracked" or kind != "func" or not is_feasible(f, tol):
            continue
        value = obj_value(o)
        valid.append((ordinal, value))
    non_nan = [(k, v) for k, v in valid if not math.isnan(v)]
    best = min((v for _, v in non_nan), default=None)
    last = valid[-1] if valid else None
    last_non_nan = non_nan[-1] if non_nan else None
    return {"valid": valid, "best": best, "last": last, "last_non_nan": last_non_nan, "any_nan_valid": any(math.isnan(v) for _, v in valid)}


def held_of(b: Built) -> tuple[int | None, Any]:
    res = b.plan.get(b.tracker, "results")
    if res is None:
        return None, None
    return b.by_id.get(id(res), -1), res


def check_state(b: Built, hist: list[Any], what: str, tol: float | None, tname: str) -> tuple[list[tuple[str, Any]], bool, Any]:
    problems: list[tuple[str, Any]] = []
    ref = reference(b, tol)
    ordinal, res = held_of(b)
    trivial = not ref["valid"] or (ref["best"] is None)
    detail = {"history": hist, "what": what, "tol": tol, "transforms": tname}
    if ordinal is None:
        held_sym = None
    elif ordinal < 0:
        problems.append(("holds-unknown-object", detail))
        held_sym = None
    else:
        held_sym = b.delivered[ordinal]["sym"]
    canon_held = None if held_sym is None else (held_sym[0] if held_sym[0] != "1b" else "1")
    if held_sym is not None:
        o, f, kind, s = held_sym
        if s != "tracked":
            problems.append(("holds-result-from-other-source", detail))
        if kind != "func":
            problems.append(("holds-non-function-result", detail))
        if not is_feasible(f, tol):
            problems.append((f"holds-infeasible-result:{f}", detail))
    if what == "best":
        if ref["best"] is None:
            # no valid non-NaN result so far: nothing, or a (feasible, tracked) NaN result, may be held
            if held_sym is not None and not math.isnan(obj_value(held_sym[0])):
                problems.append(("holds-result-without-valid-history", detail))
        else:
            if held_sym is None:
                problems.append(("valid-result-not-tracked", {**detail, "expected_best": ref["best"]}))
            else:
                value = obj_value(held_sym[0])
                if math.isnan(value):
                    problems.append(("nan-result-blocks-valid-one", {**detail, "expected_best": ref["best"]}))
                elif value != ref["best"]:
                    sig = "best-not-minimum" + (":maximize" if tname == "maximize" else "")
                    problems.append((sig, {**detail, "held": value, "expected_best": ref["best"]}))
                # reported objective of the held result is in the user domain
                user_value = float(res.functions.weighted_objective)
                expect_user = {"none": value, "scaling": value, "maximize": -value}[tname]
                if tname != "scaling" and not math.isnan(value) and user_value != expect_user:
                    problems.append(("held-result-not-user-domain", {**detail, "observed": user_value, "expected": expect_user}))
    else:
        if ref["last"] is None:
            if held_sym is not None:
                problems.append(("last-holds-result-without-valid-history", detail))
        else:
            exp_ordinal, exp_value = ref["last"]
            if ordinal != exp_ordinal:
                # a NaN-objective function result being most recent: holding it or the last non-NaN one are both accepted
                alt = ref["last_non_nan"][0] if ref["last_non_nan"] else None
                if not (math.isnan(exp_value) and ordinal == alt):
                    problems.append(("last-not-most-recent-feasible", {**detail, "held_ordinal": ordinal, "expected_ordinal": exp_ordinal}))
    canon = (canon_held, ref["best"], None if ref["last"] is None else repr(ref["last"][1])) if what == "best" else (
        canon_held, None if ref["last"] is None else repr(ref["last"][1]))
    return problems, trivial, canon


def explore(what: str, tol: float | None, tname: str, events: list[Any], depth: int, merge: bool, rec: Recorder, label: str) -> None:
    def build_(hist: list[Any]) -> Built:
        return build(hist, what, tol, tname)

    def canon_(b: Built, hist: list[Any]) -> Any:
        return check_state(b, hist, what, tol, tname)[2]

    def check_(b: Built, hist: list[Any]) -> list[Any]:
        problems, trivial, canon = check_state(b, hist, what, tol, tname)
        j = Judgement(trivial=trivial, outcome=f"{label}:held={canon[0]}:best={canon[1]}")
        for sig, detail in problems:
            j.fail(sig, **detail)
        key = (label, canon) if merge else (label, tuple(map(repr, hist)))
        rec.add(key, {"kind": "tracker", "what": what, "tol": tol, "transforms": tname, "history": [list(map(list_or, e)) for e in hist]}, j)
        return []

    result = bfs_mod.bfs(build_, lambda b, h: events, canon_, check_, max_depth=depth, merge=merge)
    rec.result.extra[f"bfs_states:{label}"] = result.states
    rec.result.extra[f"bfs_transitions:{label}"] = result.transitions
    if merge and not result.closed:
        rec.cap(f"{label}: closure not reached in depth {depth}")


def list_or(x: Any) -> Any:
    return list(x) if isinstance(x, tuple) else x


# ------------------------------------------------------------------ BasicOptimizer conformance

E2E_ALPHABET = [(o, f) for o in ("0", "1", "2") for f in ("ok", "nonlinear", "bound")] + [("nan", "ok"), ("1m", "ok")]


def run_basic(trace: list[tuple[str, str]], tname: str) -> Judgement:
    """Replay a model trace through BasicOptimizer: step k evaluates the point x=[k+1]."""
    import ropt.plugins.optimizer.scipy as scipy_plugin
    from ropt.plan import BasicOptimizer

    j = Judgement()
    maximize = tname == "maximize"
    sign = -1.0 if maximize else 1.0

    def fn(x: np.ndarray, r: int) -> Any:
        k = int(round(float(x[0]))) - 1
        o, f = trace[k]
        value = obj_value(o)
        # user-domain objective; with the sign-flip transform the optimizer minimizes -value: store sign*value so
        # that the optimizer-domain objective is the alphabet value
        return [sign * value, 1.0 if f == "nonlinear" else -1.0]

    def driver(fun: Any, x0: Any, **kwargs: Any) -> None:
        for k in range(len(trace)):
            x = np.array([float(k + 1)])
            fun(x)

    config = {
        "variables": {"initial_values": [1.0], "lower_bounds": [0.0], "upper_bounds": [100.0]},
        "nonlinear_constraints": {"lower_bounds": [-np.inf], "upper_bounds": [0.0]},
        "optimizer": {"method": "slsqp"},
        "realizations": {"realization_min_success": 0},
    }
    # bound violation: put the point outside the upper bound by evaluating x = 1000 + k + 1
    bound_points = {k for k, (_, f) in enumerate(trace) if f == "bound"}

    def fn2(x: np.ndarray, r: int) -> Any:
        xv = float(x[0])
        if xv > 500:
            xv -= 1000.0
        return fn(np.array([xv]), r)

    def driver2(fun: Any, x0: Any, **kwargs: Any) -> None:
        for k in range(len(trace)):
            fun(np.array([float(k + 1) + (1000.0 if k in bound_points else 0.0)]))

    transforms = make_transforms(maximize=True) if maximize else None
    evaluator = TableEvaluator(fn2, 1, 1)
    try:
        with scipy_entry_points(driver2):
            opt = BasicOptimizer(config, evaluator, transforms=transforms, constraint_tolerance=1e-10)
            opt.run()
    except Exception as exc:  # noqa: BLE001
        j.fail(f"basic-optimizer-raised:{type(exc).__name__}", trace=trace)
        return j
    # model: the run stops at the first NaN (TOO_FEW_REALIZATIONS for a NaN-intolerant method), results before count
    valid = []
    for k, (o, f) in enumerate(trace):
        if o == "nan":
            break
        if f == "ok":
            valid.append((k, obj_value(o)))
    j.transitions = len(trace)
    j.trivial = not valid
    best = min((v for _, v in valid), default=None)
    res = opt.results
    j.outcome = f"basic:best={best}:{tname}"
    if best is None:
        # nothing valid: BasicOptimizer may report nothing, or a NaN-objective result (unspecified, trivial)
        if res is not None and res.functions is not None and not math.isnan(float(res.functions.weighted_objective)):
            j.fail("basic-holds-result-without-valid-history", trace=trace)
        return j
    if res is None:
        j.fail("basic-no-result", trace=trace, expected_best=best)
        return j
    held_user = float(res.functions.weighted_objective)
    held_opt = sign * held_user
    if held_opt != best:
        j.fail("basic-best-not-minimum" + (":maximize" if maximize else ""), trace=trace, held=held_opt, expected_best=best)
    if opt.variables is None or not np.array_equal(opt.variables, res.evaluations.variables):
        j.fail("basic-variables-not-of-best", trace=trace)
    return j


# ------------------------------------------------------------------ real evaluator steps with batches and transforms

STEP_ALPHABET = [(o, f) for o in ("0", "1", "2") for f in ("ok", "nonlinear")] + [("failed", "ok"), ("1m", "ok")]


def run_steps(rows: list[tuple[str, str]], tname: str, split: Any) -> Judgement:
    """The rows are evaluated by REAL evaluator steps (one batch, or the first row alone and the rest as a batch); real
    'best' and 'last' trackers follow the step; events, transforms and result pairing are all the implementation's."""
    from ropt.plan import OptimizerContext, Plan

    j = Judgement()
    sign = -1.0 if tname == "maximize" else 1.0
    oscale = 2.0 if tname == "scaling" else 1.0

    def fn(x: np.ndarray, r: int) -> Any:
        o, f = rows[int(round(float(x[0]))) - 1]
        value = math.nan if o == "failed" else sign * oscale * obj_value(o)
        return [value, 1.0 if f == "nonlinear" else -1.0]

    config = {
        "variables": {"initial_values": [1.0]},
        "nonlinear_constraints": {"lower_bounds": [-np.inf], "upper_bounds": [0.0]},
    }
    transforms = None
    if tname == "maximize":
        transforms = make_transforms(maximize=True)
    elif tname == "scaling":
        transforms = make_transforms(obj_scales=[2.0], con_scales=[4.0])
    manager, _ = make_manager()
    context = OptimizerContext(evaluator=TableEvaluator(fn, 1, 1), plugin_manager=manager)
    plan = Plan(context)
    batch_by_optimizer = split == "optimizer-batch"
    step = plan.add_step("optimizer" if batch_by_optimizer else "evaluator")
    best = plan.add_handler("tracker", what="best", sources={step})
    last = plan.add_handler("tracker", what="last", sources={step})
    xs = np.array([[float(k + 1)] for k in range(len(rows))])
    groups = [xs] if batch_by_optimizer or not split or len(rows) < 2 else [xs[:1], xs[1:]]
    try:
        for group in groups:
            if batch_by_optimizer:
                # the rows as ONE batch requested by a (NaN tolerant, parallel) optimizer inside an optimizer step
                cfg = {**config, "optimizer": {"method": "verif/scripted", "parallel": True,
                                               "options": {"script": [[group.tolist(), True, False]], "allow_nan": True, "parallel": True}}}
                plan.run_step(step, config=cfg, transforms=transforms)
            else:
                plan.run_step(step, config=config, transforms=transforms, variables=group if group.shape[0] > 1 else group[0])
    except Exception as exc:  # noqa: BLE001
        j.fail(f"steps-raised:{type(exc).__name__}", rows=rows, transforms=tname, message=str(exc)[:200])
        return j
    valid = [(k, obj_value(o)) for k, (o, f) in enumerate(rows) if o != "failed" and f == "ok"]
    j.transitions = len(groups)
    j.trivial = not valid
    j.outcome = f"steps:{tname}:valid={min(len(valid), 2)}:split={split}"

    def held_row(handler: Any) -> int | None:
        res = plan.get(handler, "results")
        return None if res is None else int(round(float(res.evaluations.variables[0]))) - 1

    hb, hl = held_row(best), held_row(last)
    if not valid:
        if hb is not None or hl is not None:
            j.fail("steps:holds-result-without-valid-history", rows=rows, best=hb, last=hl, transforms=tname)
        return j
    best_value = min(v for _, v in valid)
    if hb is None or rows[hb][0] == "failed" or rows[hb][1] != "ok" or obj_value(rows[hb][0]) != best_value:
        j.fail("steps:best-not-feasible-minimum" + (":maximize" if tname == "maximize" else ""), rows=rows, held=hb, expected=best_value,
               transforms=tname, split=split)
    if hl != valid[-1][0]:
        j.fail("steps:last-not-most-recent-feasible", rows=rows, held=hl, expected=valid[-1][0], transforms=tname, split=split)
    return j


# ------------------------------------------------------------------ shards


def shards(tier: str, seed: int) -> list[dict[str, Any]]:
    out = []
    for what in ("best", "last"):
        for tol in (1e-10, None, 0.5, 0.0):
            for tname in ("none", "scaling", "maximize"):
                out.append({"kind": "closure", "what": what, "tol": tol, "transforms": tname})
    depth = 3 if tier == "quick" else 4
    for what in ("best", "last"):
        for tname in ("none", "maximize"):
            for first in range(16):
                out.append({"kind": "nomerge", "what": what, "tol": 1e-10, "transforms": tname, "depth": depth, "first": first})
    elen = 3 if tier == "quick" else 4
    for tname in ("none", "maximize"):
        for first in range(len(E2E_ALPHABET)):
            out.append({"kind": "basic", "transforms": tname, "len": elen, "first": first})
    for tname in ("none", "maximize", "scaling"):
        for first in range(len(STEP_ALPHABET)):
            out.append({"kind": "steps", "transforms": tname, "len": elen, "first": first})
    return out


NOMERGE_ALPHABET = [("one", (o, f, k, s)) for o in ("nan", "0", "1", "2") for f in ("ok", "bound") for k in ("func",) for s in ("tracked", "other")][:15] + [("reset",)]


def run_shard(shard: dict[str, Any]) -> core.ShardResult:
    rec = Recorder(shard)
    if shard["kind"] == "closure":
        label = f"closure:{shard['what']}:{shard['tol']}:{shard['transforms']}"
        explore(shard["what"], shard["tol"], shard["transforms"], single_events() + pair_events(), 8, True, rec, label)
    elif shard["kind"] == "nomerge":
        label = f"nomerge:{shard['what']}:{shard['transforms']}:{shard['first']}"
        what, tol, tname = shard["what"], shard["tol"], shard["transforms"]
        first = NOMERGE_ALPHABET[shard["first"]]
        for rest in itertools.chain.from_iterable(itertools.product(NOMERGE_ALPHABET, repeat=n) for n in range(shard["depth"])):
            hist = [first, *rest]
            b = build(hist, what, tol, tname)
            problems, trivial, canon = check_state(b, hist, what, tol, tname)
            j = Judgement(trivial=trivial, outcome=f"nomerge:held={canon[0]}:best={canon[1]}", transitions=len(hist))
            for sig, detail in problems:
                j.fail(sig, **detail)
            rec.add((label, tuple(map(repr, hist))), {"kind": "tracker", "what": what, "tol": tol, "transforms": tname,
                                                      "history": [list(map(list_or, e)) for e in hist]}, j)
    elif shard["kind"] == "steps":
        tname = shard["transforms"]
        first = STEP_ALPHABET[shard["first"]]
        for rest in itertools.chain.from_iterable(itertools.product(STEP_ALPHABET, repeat=n) for n in range(shard["len"])):
            rows = [first, *rest]
            for split in (False, True, "optimizer-batch"):
                if split and len(rows) < 2:
                    continue
                j = run_steps(rows, tname, split)
                rec.add(("steps", tname, tuple(rows), split), {"kind": "steps", "transforms": tname, "rows": [list(r) for r in rows], "split": split}, j)
    else:
        tname = shard["transforms"]
        first = E2E_ALPHABET[shard["first"]]
        for rest in itertools.chain.from_iterable(itertools.product(E2E_ALPHABET, repeat=n) for n in range(shard["len"])):
            trace = [first, *rest]
            j = run_basic(trace, tname)
            rec.add(("basic", tname, tuple(trace)), {"kind": "basic", "transforms": tname, "trace": [list(t) for t in trace]}, j)
    return rec.finish()


def run_case(case: dict[str, Any]) -> Judgement:
    if case["kind"] == "basic":
        return run_basic([tuple(t) for t in case["trace"]], case["transforms"])
    if case["kind"] == "steps":
        return run_steps([tuple(r) for r in case["rows"]], case["transforms"], case["split"])
    hist = [tuple(tuple(x) if isinstance(x, list) else x for x in e) for e in case["history"]]  # ("reset",) stays a 1-tuple
    tol = case["tol"]
    b = build(hist, case["what"], tol, case["transforms"])
    problems, trivial, _ = check_state(b, hist, case["what"], tol, case["transforms"])
    j = Judgement(trivial=trivial)
    for sig, detail in problems:
        j.fail(sig, **detail)
    return j


if __name__ == "__main__":
    sys.exit(core.main(sys.modules[__name__]))
