"""C15 - event streams are well formed and aborts latch the plan, at every abort point."""

from __future__ import annotations

import sys
from typing import Any

import numpy as np

from mc import core
from mc.core import Judgement, Recorder
from mc.explore import Chooser, explore
from mc.harness import AffineEnsemble, TableEvaluator, make_manager, scipy_entry_points

PROPERTY = "C15"
RULE = (
    "E2 deviation-bounded exploration with the user abort as the deviation: every delivery of an event to a receiver "
    "(handler of the emitting plan, handler of an ancestor plan, observer) and every evaluator call is a choice point "
    "whose non-default answers are 'raise OptimizationAborted(USER_ABORT) here' (and, at evaluator calls, 'all rows fail'). "
    "ALL executions with <=2 deviations (quick) / <=3 deviations (thorough): failures and max_functions stops before the "
    "abort, are run to completion. Plan shapes: optimizer step; evaluator step; two sequential optimizer steps; nested "
    "plan (outer optimizer step whose nested inner plan runs an optimizer step); the same inner plan object reused by a "
    "second, different outer plan; BasicOptimizer with set_abort_callback "
    "(abort at every call index). Monitors: per-source stream grammar START_x (START_EVALUATION FINISHED_EVALUATION)* "
    "[START_EVALUATION] FINISHED_x with the unmatched START_EVALUATION only when the evaluation itself raised; each event "
    "object delivered at most once to every receiver and, before the abort, exactly once in the order handlers of the "
    "emitting plan, ancestors' handlers, observers; after an abort: the step returns USER_ABORT, plan (and parent) "
    "aborted, a further run_step raises PlanAborted. The fault-free baseline execution is also judged."
)
ASSUMPTIONS = [
    "receivers after the aborting receiver of the same event may or may not see that event (unspecified); never twice",
    "an abort raised by an observer/handler while an evaluator STEP runs is outside the quantifier (evaluator steps: evaluator-raised aborts only)",
]
BOUNDS = {"quick": "deviation bound 2 over 7 plan shapes x max_functions variants", "thorough": "deviation bound 3"}

POINTS = {"A": [0.5, -0.25], "B": [-1.0, 1.0], "C": [2.0, 0.5]}


def ensemble_fn() -> AffineEnsemble:
    slopes = np.array([[[1.0, -2.0], [0.5, 1.5]], [[-0.75, 0.25], [2.0, -1.0]]])
    offsets = np.array([[0.5, -1.0], [1.25, 0.75]])
    return AffineEnsemble(slopes, offsets, quad=[0.5, -0.25])


def base_config(script: list[Any], mask: Any = None, max_functions: int | None = None) -> dict[str, Any]:
    variables: dict[str, Any] = {"initial_values": POINTS["A"]}
    if mask is not None:
        variables["mask"] = mask
    optimizer: dict[str, Any] = {"method": "verif/scripted", "options": {"script": script}}
    if max_functions:
        optimizer["max_functions"] = max_functions
    return {
        "variables": variables,
        "realizations": {"weights": [1.0, 2.0]},
        "nonlinear_constraints": {"lower_bounds": [-100.0], "upper_bounds": [100.0]},
        "gradient": {"number_of_perturbations": 2, "perturbation_magnitudes": 0.125},
        "samplers": [{"method": "verif/design", "options": {"design": [[1.0, 0.0], [0.0, 1.0]] if mask is None else [[1.0], [-0.5]]}, "shared": True}],
        "optimizer": optimizer,
    }


class World:
    """Everything one execution records."""

    def __init__(self, chooser: Chooser) -> None:
        self.chooser = chooser
        self.deliveries: list[tuple[str, int]] = []  # (receiver, event ordinal)
        self.events: list[Any] = []  # keeps event objects alive; ordinal = index
        self.ordinal_of: dict[int, int] = {}
        self.abort_at: tuple[str, Any] | None = None  # where the abort was injected
        self.eval_raised: list[int] = []  # ordinals of START_EVALUATION events whose evaluation raised
        self.open_eval: int | None = None
        self.phase = 0  # which outer plan is running (shape nested-reused)
        self.event_phase: dict[int, int] = {}
        self.step_owner: dict[Any, Any] = {}  # step id -> the plan it belongs to
        self.unlatched_at_finish: list[str] = []  # FINISHED_x_STEP delivered after an abort while the plan was not yet aborted

    def own(self, plan: Any, step: Any) -> Any:
        self.step_owner[step] = plan
        return step

    def ordinal(self, event: Any) -> int:
        key = id(event)
        if key not in self.ordinal_of or self.events[self.ordinal_of[key]] is not event:
            self.ordinal_of[key] = len(self.events)
            self.events.append(event)
        return self.ordinal_of[key]

    def deliver(self, receiver: str, event: Any, *, may_abort: bool = True) -> None:
        from ropt.enums import EventType, OptimizerExitCode
        from ropt.exceptions import OptimizationAborted

        k = self.ordinal(event)
        self.event_phase.setdefault(k, self.phase)
        self.deliveries.append((receiver, k))
        if event.event_type == EventType.START_EVALUATION:
            self.open_eval = k
        if (self.abort_at is not None and event.event_type in (EventType.FINISHED_OPTIMIZER_STEP, EventType.FINISHED_EVALUATOR_STEP)
                and self.abort_at[0] == "delivery" and self.events[self.abort_at[1][1]].source == event.source
                and event.source in self.step_owner and not self.step_owner[event.source].aborted):
            # the user aborted at an earlier event of this very step: while its last event is delivered the plan is
            # already marked (a receiver that looks at plan.aborted, or starts a follow-up step, sees the abort)
            self.unlatched_at_finish.append(receiver)
        if may_abort and self.abort_at is None:
            if self.chooser.choose(2, f"deliver:{receiver}:{event.event_type.name}") == 1:
                self.abort_at = ("delivery", (receiver, k))
                raise OptimizationAborted(exit_code=OptimizerExitCode.USER_ABORT)

    def evaluator_hook(self, call_index: int, evaluator: Any) -> None:
        from ropt.enums import OptimizerExitCode
        from ropt.exceptions import OptimizationAborted

        if self.abort_at is not None:
            return
        choice = self.chooser.choose(3, f"evaluator:{call_index}")
        if choice == 1:
            self.abort_at = ("evaluator", self.open_eval)
            if self.open_eval is not None:
                self.eval_raised.append(self.open_eval)
            raise OptimizationAborted(exit_code=OptimizerExitCode.USER_ABORT)
        if choice == 2:
            evaluator.fail_all = call_index


def make_world(chooser: Chooser, allow_delivery_abort: bool = True) -> tuple[World, Any, Any, Any]:
    from ropt.enums import EventType
    from ropt.plan import OptimizerContext

    world = World(chooser)
    manager, scripted = make_manager()
    evaluator = TableEvaluator(ensemble_fn(), 1, 1, hook=world.evaluator_hook,
                               fail=lambda call, row, r, p: [0] if getattr(evaluator, "fail_all", None) == call else None)
    context = OptimizerContext(evaluator=evaluator, plugin_manager=manager)
    for event_type in EventType:
        context.add_observer(event_type, lambda event, w=world: w.deliver("observer", event, may_abort=allow_delivery_abort))
    return world, manager, evaluator, context


def add_recorder(plan: Any, world: World, name: str, allow_abort: bool = True) -> None:
    log: list[Any] = []

    def hook(receiver: str, event: Any) -> None:
        world.deliver(receiver, event, may_abort=allow_abort)

    plan.add_handler("verif/recorder", log=log, tag=name, abort_at=hook)


def run_shape(shape: str, variant: dict[str, Any], chooser: Chooser) -> dict[str, Any]:
    from ropt.enums import OptimizerExitCode
    from ropt.exceptions import PlanAborted
    from ropt.plan import Plan

    out: dict[str, Any] = {"codes": [], "exception": None, "aborted_flags": {}, "refused": None, "chain": {}}
    script = [[POINTS["A"], True, False], [POINTS["B"], True, True], [POINTS["C"], True, False]]
    max_functions = variant.get("max_functions")
    if shape == "basic":
        return run_basic(variant, chooser)
    world, manager, evaluator, context = make_world(chooser, allow_delivery_abort=shape != "evaluator")
    out["world"] = world
    try:
        if shape == "optimizer":
            plan = Plan(context)
            add_recorder(plan, world, "h-plan")
            step = world.own(plan, plan.add_step("optimizer"))
            out["chain"] = {str(step): ["h-plan", "observer"]}
            out["codes"].append(plan.run_step(step, config=base_config(script, max_functions=max_functions)))
            out["plans"] = [plan]
            out["retry"] = (plan, step, base_config(script))
        elif shape == "evaluator":
            plan = Plan(context)
            add_recorder(plan, world, "h-plan", allow_abort=False)
            step = world.own(plan, plan.add_step("evaluator"))
            out["chain"] = {str(step): ["h-plan", "observer"]}
            out["codes"].append(plan.run_step(step, config=base_config(script), variables=np.array([POINTS["A"], POINTS["B"]])))
            out["plans"] = [plan]
            out["retry"] = (plan, step, base_config(script))
        elif shape == "sequential":
            plan = Plan(context)
            add_recorder(plan, world, "h-plan")
            step1, step2 = world.own(plan, plan.add_step("optimizer")), world.own(plan, plan.add_step("optimizer"))
            out["chain"] = {str(step1): ["h-plan", "observer"], str(step2): ["h-plan", "observer"]}
            out["plans"] = [plan]
            out["retry"] = (plan, step2, base_config(script[:1]))
            out["codes"].append(plan.run_step(step1, config=base_config(script[:2], max_functions=max_functions)))
            if world.abort_at is None:
                out["codes"].append(plan.run_step(step2, config=base_config(script[1:])))
        elif shape in ("nested", "nested-own-context"):
            # (own context: the nested plan was built on a different OptimizerContext than the outer plan; the observers
            # live on the outer plan's context and still see every event)
            from ropt.plan import OptimizerContext

            inner = Plan(context if shape == "nested" else OptimizerContext(evaluator=evaluator, plugin_manager=manager))
            add_recorder(inner, world, "h-inner")
            inner_step = world.own(inner, inner.add_step("optimizer"))
            inner_tracker = inner.add_handler("tracker", sources={inner_step})
            inner_script = [[[0.75], True, False], [[-0.5], True, True]]

            def inner_fn(plan: Any, variables: Any) -> Any:
                plan.run_step(inner_step, config=base_config(inner_script, mask=[False, True]), variables=variables)
                return plan.get(inner_tracker, "results")

            inner.add_function(inner_fn)
            outer = Plan(context)
            add_recorder(outer, world, "h-outer")
            outer_step = world.own(outer, outer.add_step("optimizer"))
            out["chain"] = {str(outer_step): ["h-outer", "observer"], str(inner_step): ["h-inner", "h-outer", "observer"]}
            out["plans"] = [outer, inner]
            out["retry"] = (outer, outer_step, base_config([[[0.5], True, False]], mask=[True, False]))
            outer_script = [[[0.25], True, False], [[1.0], True, True]]
            out["codes"].append(outer.run_step(outer_step, config=base_config(outer_script, mask=[True, False], max_functions=max_functions),
                                               nested_optimization=inner))
        elif shape == "nested-reused":
            # the SAME inner plan object is first used by outer plan A and then by a different outer plan B
            inner = Plan(context)
            add_recorder(inner, world, "h-inner")
            inner_step = world.own(inner, inner.add_step("optimizer"))
            inner_tracker = inner.add_handler("tracker", sources={inner_step})
            inner_script = [[[0.75], True, False]]

            def inner_fn2(plan: Any, variables: Any) -> Any:
                plan.run_step(inner_step, config=base_config(inner_script, mask=[False, True]), variables=variables)
                return plan.get(inner_tracker, "results")

            inner.add_function(inner_fn2)
            outer_a, outer_b = Plan(context), Plan(context)
            add_recorder(outer_a, world, "h-outer-a")
            add_recorder(outer_b, world, "h-outer-b")
            step_a, step_b = world.own(outer_a, outer_a.add_step("optimizer")), world.own(outer_b, outer_b.add_step("optimizer"))
            out["chain"] = {str(step_a): ["h-outer-a", "observer"], str(step_b): ["h-outer-b", "observer"],
                            (str(inner_step), 0): ["h-inner", "h-outer-a", "observer"], (str(inner_step), 1): ["h-inner", "h-outer-b", "observer"]}
            out["plans"] = [outer_a]
            outer_script = [[[0.25], True, False]]
            out["retry"] = (outer_a, step_a, base_config(outer_script, mask=[True, False]))
            out["codes"].append(outer_a.run_step(step_a, config=base_config(outer_script, mask=[True, False]), nested_optimization=inner))
            if world.abort_at is None:
                world.phase = 1
                out["plans"] = [outer_b]
                out["retry"] = (outer_b, step_b, base_config(outer_script, mask=[True, False]))
                out["codes"].append(outer_b.run_step(step_b, config=base_config(outer_script, mask=[True, False]), nested_optimization=inner))
                if world.abort_at is not None:
                    out["plans"] = [outer_b, inner]
            else:
                out["plans"] = [outer_a, inner]
    except Exception as exc:  # noqa: BLE001
        out["exception"] = f"{type(exc).__name__}"
        out["exception_obj"] = exc
    out["aborted_flags"] = [p.aborted for p in out.get("plans", [])]
    out["n_events"] = len(world.events)
    out["n_deliveries"] = len(world.deliveries)
    if world.abort_at is not None and "retry" in out:
        plan, step, cfg = out["retry"]
        try:
            plan.run_step(step, config=cfg)
            out["refused"] = False
        except PlanAborted:
            out["refused"] = True
        except Exception as exc:  # noqa: BLE001
            out["refused"] = f"other:{type(exc).__name__}"
    return out


def run_basic(variant: dict[str, Any], chooser: Chooser) -> dict[str, Any]:
    import ropt.plugins.optimizer.scipy as plugin
    from ropt.plan import BasicOptimizer

    out: dict[str, Any] = {"codes": [], "exception": None, "basic": True, "abort_call": None, "calls": 0}
    evaluator = TableEvaluator(ensemble_fn(), 1, 1)

    def driver(*, fun: Any, x0: Any, jac: Any = None, **kwargs: Any) -> None:
        for pt in ("A", "B", "C"):
            fun(np.array(POINTS[pt]))
            if callable(jac):
                jac(np.array(POINTS[pt]))

    def callback() -> bool:
        out["calls"] += 1
        if out["abort_call"] is None and chooser.choose(2, f"abort_callback:{out['calls']}") == 1:
            out["abort_call"] = out["calls"]
            return True
        return False

    config = {
        "variables": {"initial_values": POINTS["A"]},
        "realizations": {"weights": [1.0, 2.0]},
        "nonlinear_constraints": {"lower_bounds": [-100.0], "upper_bounds": [100.0]},
        "optimizer": {"method": "slsqp"},
        "gradient": {"number_of_perturbations": 2},
    }
    try:
        with scipy_entry_points(driver):
            opt = BasicOptimizer(config, evaluator).set_abort_callback(callback)
            opt.run()
        out["codes"].append(opt.exit_code)
        out["results_present"] = opt.results is not None
    except Exception as exc:  # noqa: BLE001
        out["exception"] = type(exc).__name__
    out["evaluations"] = len(evaluator.calls)
    return out


def judge_run(shape: str, variant: dict[str, Any], choices: list[int], run: dict[str, Any]) -> Judgement:
    from ropt.enums import EventType, OptimizerExitCode

    j = Judgement()
    detail = {"shape": shape, "variant": variant, "choices": choices}
    if run.get("basic"):
        aborted = run["abort_call"] is not None
        j.outcome = f"basic:abort={aborted}"
        if run["exception"] is not None:
            j.fail(f"basic:exception-escaped:{run['exception']}", **detail)
            return j
        code = run["codes"][0]
        if aborted and code != OptimizerExitCode.USER_ABORT:
            j.fail(f"basic:abort-but-code-{code.name}", **detail)
        if not aborted and code != OptimizerExitCode.OPTIMIZER_STEP_FINISHED:
            j.fail(f"basic:no-abort-but-code-{code.name}", **detail)
        if aborted and run["evaluations"] != run["abort_call"] - 1:
            j.fail("basic:evaluation-ran-after-abort-request", evaluations=run["evaluations"], **detail)
        j.transitions = run["calls"]
        return j
    world: World = run["world"]
    aborted = world.abort_at is not None
    where = "none"
    if aborted:
        kind, info = world.abort_at
        if kind == "evaluator":
            where = "evaluator"
        else:
            receiver, k = info
            where = f"{receiver}@{world.events[k].event_type.name}"
    detail["abort_at"] = where
    loc = "none"
    abort_source = None
    if aborted:
        kind, info = world.abort_at
        if kind == "evaluator":
            loc = "evaluator"
            abort_source = None if info is None else str(world.events[info].source)
        else:
            etype = world.events[info[1]].event_type
            abort_source = str(world.events[info[1]].source)
            loc = {EventType.START_OPTIMIZER_STEP: "step-start-event", EventType.FINISHED_OPTIMIZER_STEP: "step-finished-event",
                   EventType.START_EVALUATOR_STEP: "step-start-event", EventType.FINISHED_EVALUATOR_STEP: "step-finished-event",
                   EventType.START_EVALUATION: "evaluation-start-event", EventType.FINISHED_EVALUATION: "evaluation-finished-event"}[etype]
    nested_shape = shape in ("nested", "nested-reused", "nested-own-context")
    inner_chain = run["chain"].get(abort_source) or run["chain"].get((abort_source, 0)) or [""]
    inner_abort = nested_shape and abort_source is not None and inner_chain[0] == "h-inner"
    if nested_shape and aborted:
        loc += ":inner" if inner_abort else ":outer"
    where = loc
    j.transitions = len(world.deliveries)
    j.outcome = f"{shape}:{where}:exc={run['exception']}"
    # ---- exceptions / exit codes / latch
    if run["exception"] is not None:
        j.fail(f"exception-escaped:{run['exception']}:{shape}:{where}", **detail)
    else:
        last = run["codes"][-1] if run["codes"] else None
        if aborted and last != OptimizerExitCode.USER_ABORT:
            j.fail(f"abort-but-code-{None if last is None else last.name}:{shape}:{where}", **detail)
        if not aborted and last == OptimizerExitCode.USER_ABORT:
            j.fail("USER_ABORT-without-abort", **detail)
    if aborted:
        # the plan in which the abort arose and its ancestors must be marked (plans[0] is the outermost plan)
        required = run["aborted_flags"] if (not nested_shape or inner_abort) else run["aborted_flags"][:1]
        if not all(required) or not required:
            j.fail(f"plan-not-marked-aborted:{shape}:{where}", flags=run["aborted_flags"], **detail)
        if run["refused"] is not True:
            j.fail(f"further-step-not-refused:{shape}:{where}", refused=run["refused"], **detail)
    elif any(run["aborted_flags"]):
        j.fail("plan-aborted-without-abort", **detail)
    if world.unlatched_at_finish:
        j.fail(f"plan-not-yet-marked-aborted-while-the-step-finished-event-is-delivered:{shape}", receivers=world.unlatched_at_finish, **detail)
    # ---- delivery discipline
    per_event: dict[int, list[str]] = {}
    for receiver, k in world.deliveries[: run["n_deliveries"]]:
        per_event.setdefault(k, []).append(receiver)
    abort_event = world.abort_at[1][1] if aborted and world.abort_at[0] == "delivery" else None
    for k, receivers in per_event.items():
        event = world.events[k]
        chain = run["chain"].get((str(event.source), world.event_phase.get(k, 0)), run["chain"].get(str(event.source)))
        if chain is None:
            j.fail("event-from-unknown-source", **detail)
            continue
        if len(set(receivers)) != len(receivers):
            j.fail(f"event-delivered-twice:{event.event_type.name}", receivers=receivers, **detail)
        if k == abort_event:
            if receivers != chain[: len(receivers)]:
                j.fail(f"delivery-order:{event.event_type.name}", receivers=receivers, chain=chain, **detail)
        elif receivers != chain:
            sig = "event-not-delivered-to-every-receiver" if set(receivers) < set(chain) else "delivery-order"
            j.fail(f"{sig}:{event.event_type.name}", receivers=receivers, chain=chain, **detail)
    # ---- stream grammar per source (as seen by the last receiver that saw each event, in emission order)
    by_source: dict[str, list[tuple[int, Any]]] = {}
    for k, event in enumerate(world.events[: run["n_events"]]):
        by_source.setdefault(str(event.source), []).append((k, event))
    for source, items in by_source.items():
        types = [e.event_type for _, e in items]
        start_types = (EventType.START_OPTIMIZER_STEP, EventType.START_EVALUATOR_STEP)
        finish_of = {EventType.START_OPTIMIZER_STEP: EventType.FINISHED_OPTIMIZER_STEP, EventType.START_EVALUATOR_STEP: EventType.FINISHED_EVALUATOR_STEP}
        pos = 0
        while pos < len(types):
            if types[pos] not in start_types:
                j.fail(f"stream-does-not-start-with-step-start:{types[pos].name}:{shape}", **detail)
                break
            finish = finish_of[types[pos]]
            pos += 1
            open_eval: int | None = None
            ok = True
            while pos < len(types) and types[pos] != finish:
                if types[pos] == EventType.START_EVALUATION:
                    if open_eval is not None:
                        ok = False
                        j.fail(f"START_EVALUATION-while-evaluation-open:{shape}:{where}", **detail)
                    open_eval = items[pos][0]
                elif types[pos] == EventType.FINISHED_EVALUATION:
                    if open_eval is None:
                        ok = False
                        j.fail(f"FINISHED_EVALUATION-without-START_EVALUATION:{shape}:{where}", **detail)
                    open_eval = None
                else:
                    ok = False
                    j.fail(f"unexpected-event-inside-step:{types[pos].name}:{shape}", **detail)
                pos += 1
            if pos >= len(types):
                if run["exception"] is None:
                    j.fail(f"step-FINISHED-event-missing:{shape}:{where}", **detail)
                else:
                    j.fail(f"step-FINISHED-event-missing-after-exception:{shape}:{where}", **detail)
                break
            if open_eval is not None:
                # allowed only when the abort arose at that START_EVALUATION or inside that evaluation
                allowed = open_eval in world.eval_raised or (abort_event == open_eval) or variant.get("fail_inside")
                if not allowed:
                    j.fail(f"START_EVALUATION-unmatched:{shape}:{where}", **detail)
            pos += 1
    return j


SHAPES = ["optimizer", "evaluator", "sequential", "nested", "nested-reused", "nested-own-context", "basic"]


def shards(tier: str, seed: int) -> list[dict[str, Any]]:
    out = []
    for shape in SHAPES:
        variants: list[dict[str, Any]] = [{}]
        if shape in ("optimizer", "sequential", "nested"):  # (nested-reused: no budget variants)
            variants += [{"max_functions": 1}, {"max_functions": 2}]
        for variant in variants:
            out.append({"shape": shape, "variant": variant, "tier": tier})
    return out


def run_shard(shard: dict[str, Any]) -> core.ShardResult:
    rec = Recorder(shard)
    shape, variant = shard["shape"], shard["variant"]
    bound = 2 if shard["tier"] == "quick" else 3
    for choices, chooser, run in explore(lambda ch: run_shape(shape, variant, ch), bound):
        j = judge_run(shape, variant, choices, run)
        rec.add((shape, tuple(sorted(variant.items())), tuple(choices)), {"shape": shape, "variant": variant, "choices": choices}, j)
    rec.result.extra["deviation_bound"] = bound
    return rec.finish()


def run_case(case: dict[str, Any]) -> Judgement:
    chooser = Chooser(prefix=list(case["choices"]))
    run = run_shape(case["shape"], case["variant"], chooser)
    return judge_run(case["shape"], case["variant"], list(case["choices"]), run)


if __name__ == "__main__":
    sys.exit(core.main(sys.modules[__name__]))
