"""C19 - plug-in lookup is deterministic, case-insensitive and side-effect free."""

from __future__ import annotations

import itertools
import sys
from typing import Any

from mc import bfs as bfs_mod
from mc import core
from mc.core import Judgement, Recorder

PROPERTY = "C19"
RULE = (
    "E3 explicit-state BFS over real PluginManager objects against an ordered-list reference model. Universe: synthetic "
    "plug-ins X{m1,m2,sub/m5 (a method name with a slash)}, Y{m2,m3,M4 (case-sensitive)}, Z{m1, allows_discovery=False}; names a/A/b/c (and Maße/maße in a separate closure; one closure registers ONE object per tag under several names); transitions add_plugin(name, plugin, "
    "prioritize in {F,T}) on manager 1 (or 1 and 2); state = tuple(plugins(type)) per manager (fully observable, so merging "
    "equal states is sound); BFS to closure; in EVERY state ALL queries (bare m1,m2,m3,nope,slsqp,default; explicit a/m1, "
    "A/m2, b/m3, c/m1, zz/m1, scipy/slsqp, SciPy/SLSQP, external/slsqp, external/m1) are evaluated through get_plugin and "
    "is_supported, twice, and the state is re-read (side-effect freedom); the same names are then asked for every OTHER "
    "plug-in type and compared with a fresh manager; every add (including duplicates) is checked "
    "against the model. Plus a no-merge run over ALL sequences of adds and lookups up to a depth. A state is one explored "
    "case; all are non-trivial."
)
ASSUMPTIONS = [
    "state of a manager = the ordered (name, plug-in) list returned by plugins(); the no-merge run guards against hidden state",
    "method-name case handling inside plug-ins is outside the statement (synthetic plug-ins match exactly); the manager "
    "is expected to hand the requested method to is_supported unchanged",
]
BOUNDS = {
    "quick": "optimizer: closure with 1 manager (full universe) and 2 managers (names a/A/b, plug-ins X/Z); other 5 types: reduced closure; no-merge depth 3",
    "thorough": "optimizer: closure with 2 managers on the full universe; no-merge depth 4",
}
SINGLE_OUTCOME_OK = False

TYPES = ["optimizer", "sampler", "realization_filter", "function_estimator", "plan_handler", "plan_step"]
BUILTIN_QUERIES = {
    "optimizer": [("slsqp", "scipy"), ("scipy/slsqp", "scipy"), ("SciPy/SLSQP", "scipy"), ("external/slsqp", "external"),
                  ("external/scipy/slsqp", "external"), ("External/SciPy/SLSQP", "external"),
                  ("external/m1", None), ("default", "scipy"), ("scipy/default", "scipy")],
    "sampler": [("norm", "scipy"), ("scipy/sobol", "scipy"), ("SCIPY/norm", "scipy")],
    "realization_filter": [("sort-objective", "default"), ("default/cvar-constraint", "default")],
    "function_estimator": [("mean", "default"), ("Default/stddev", "default")],
    "plan_handler": [("tracker", "default"), ("default/store", "default")],
    "plan_step": [("optimizer", "default"), ("DEFAULT/evaluator", "default")],
}
SYN_QUERIES = ["m1", "m2", "m3", "nope", "a/m1", "A/m2", "b/m3", "c/m1", "zz/m1", "a/nope", "B/m2", "M4", "m4", "a/M4", "B/M4", "b/m4",
               # a method name may itself contain a slash: only the FIRST slash separates the plug-in name
               "a/sub/m5", "B/sub/m5", "sub/m5", "c/sub/m5",
               # non-ASCII plug-in names (queried in spellings that every case-insensitive comparison treats alike)
               "maße/m1", "MAßE/m2", "Maße/nope"]
# Y is case-sensitive about its method M4: the manager must ask a plug-in about the method as requested (only plug-in
# NAMES are case-insensitive)
# X also supports the method called "default" (the built-in plug-ins do too): a bare "default" is a bare name like any other
SUPPORTS = {"X": {"m1", "m2", "sub/m5", "default"}, "Y": {"m2", "m3", "M4"}, "Z": {"m1"}}
DISCOVER = {"X": True, "Y": True, "Z": False}
_PLUGINS: dict[str, Any] = {}


def plugin(tag: str, key: Any = None) -> Any:
    """A fresh synthetic plug-in object per registration (so identity identifies the registration); with a `key` dict the
    same object is handed out for the same tag (one plug-in object registered under several names)."""
    if key is not None and tag in key:
        return key[tag]
    obj = _new_plugin(tag)
    if key is not None:
        key[tag] = obj
    return obj


def _new_plugin(tag: str) -> Any:
    from ropt.plugins.base import Plugin

    if "cls" not in _PLUGINS:
        class Syn(Plugin):
            def __init__(self, tag: str) -> None:
                self.tag = tag

            def is_supported(self, method: str) -> bool:
                return method in SUPPORTS[self.tag]

            @property
            def allows_discovery(self) -> bool:
                return DISCOVER[self.tag]

        _PLUGINS["cls"] = Syn
    return _PLUGINS["cls"](tag)


def fold(name: Any) -> Any:
    """Names are compared the way any case-insensitive comparison would (lower() and casefold() agree on the alphabet used)."""
    return name.casefold() if isinstance(name, str) else name


def tag_of(obj: Any) -> str:
    return getattr(obj, "tag", type(obj).__name__)


class Model:
    """Ordered list of (lower-cased name, tag)."""

    def __init__(self, initial: list[tuple[str, str]]) -> None:
        self.items = list(initial)

    def add(self, name: str, tag: str, prioritize: bool) -> bool:
        low = name.lower()
        if any(fold(n) == fold(low) for n, _ in self.items):
            return False
        if prioritize:
            self.items.insert(0, (low, tag))
        else:
            self.items.append((low, tag))
        return True

    def get(self, method: str, builtin_answers: dict[str, Any]) -> str | None:
        """-> name of the plug-in returned, or None for ConfigError."""
        if "/" in method:
            pname, meth = method.split("/", 1)
            for n, tag in self.items:
                if fold(n) == fold(pname):
                    if tag in SUPPORTS:
                        return n if meth in SUPPORTS[tag] else None
                    return n if builtin_answers.get(method) == n else None
            return None
        for n, tag in self.items:
            if tag in SUPPORTS:
                if DISCOVER[tag] and method in SUPPORTS[tag]:
                    return n
            elif builtin_answers.get(method) == n:
                return n
        return None


def build(ptype: str, hist: list[Any], n_mgr: int, shared: bool = False) -> dict[str, Any]:
    """Replay a history on fresh real managers and models; collect per-step verdicts."""
    from ropt.exceptions import ConfigError
    from ropt.plugins import PluginManager

    objects: dict[str, Any] | None = {} if shared else None

    mgrs = [PluginManager() for _ in range(n_mgr)]
    initial = [[(n, tag_of(p)) for n, p in m.plugins(ptype)] for m in mgrs]
    models = [Model(init) for init in initial]
    problems: list[tuple[str, Any]] = []
    for ev in hist:
        if ev[0] == "add":
            _, mi, name, tag, prio = ev
            before_other = [[(n, tag_of(p)) for n, p in m.plugins(ptype)] for m in mgrs]
            expected_ok = models[mi].add(name, tag, prio)
            try:
                mgrs[mi].add_plugin(ptype, name, plugin(tag, objects), prioritize=prio)
                ok = True
            except ConfigError:
                ok = False
            except Exception as exc:  # noqa: BLE001
                problems.append((f"add-raised:{type(exc).__name__}", {"event": ev}))
                ok = False
            if ok != expected_ok:
                problems.append(("duplicate-handling" if not expected_ok else "valid-add-rejected", {"event": ev}))
            for k, m in enumerate(mgrs):
                now = [(n, tag_of(p)) for n, p in m.plugins(ptype)]
                if k != mi and now != before_other[k]:
                    problems.append(("add-affected-other-manager", {"event": ev}))
        else:  # lookup events (no-merge run)
            _, mi, kind, method = ev
            try:
                if kind == "get":
                    mgrs[mi].get_plugin(ptype, method)
                else:
                    mgrs[mi].is_supported(ptype, method)
            except ConfigError:
                pass
            except Exception as exc:  # noqa: BLE001
                problems.append((f"lookup-raised:{type(exc).__name__}", {"event": ev}))
    return {"mgrs": mgrs, "models": models, "problems": problems, "ptype": ptype}


def observe_state(obj: dict[str, Any]) -> tuple[Any, ...]:
    return tuple(tuple((n, tag_of(p)) for n, p in m.plugins(obj["ptype"])) for m in obj["mgrs"])


def check_state(obj: dict[str, Any], hist: list[Any], queries: list[str]) -> list[tuple[str, Any]]:
    from ropt.exceptions import ConfigError

    out = list(obj["problems"])
    ptype = obj["ptype"]
    builtin_answers = {q: a for q, a in BUILTIN_QUERIES[ptype]}
    state_before = observe_state(obj)
    for mi, (mgr, model) in enumerate(zip(obj["mgrs"], obj["models"])):
        listed = [(n, tag_of(p)) for n, p in mgr.plugins(ptype)]
        if [(fold(n), t) for n, t in listed] != [(fold(n), t) for n, t in model.items]:
            out.append(("registration-order", {"observed": listed, "expected": model.items, "history": hist}))
            continue
        for round_ in range(2):
            for q in queries + list(builtin_answers):
                expected = model.get(q, builtin_answers)
                try:
                    got_obj = mgr.get_plugin(ptype, q)
                    by_name = {fold(n): p for n, p in mgr.plugins(ptype)}
                    if expected is not None and by_name.get(fold(expected)) is got_obj:
                        got = expected  # (one object may be registered under several names)
                    else:
                        got = next((n for n, p in mgr.plugins(ptype) if p is got_obj), "?")
                except ConfigError:
                    got = None
                except Exception as exc:  # noqa: BLE001
                    out.append((f"get-raised:{type(exc).__name__}", {"query": q, "history": hist}))
                    continue
                if fold(got) != fold(expected):
                    explicit = "/" in q
                    sig = "explicit-lookup" if explicit else "bare-lookup"
                    if not explicit and got is not None and any(n == got and tag == "Z" for n, tag in model.items):
                        sig = "bare-lookup-returned-undiscoverable"
                    out.append((sig, {"query": q, "observed": got, "expected": expected, "state": model.items, "round": round_}))
                try:
                    sup = mgr.is_supported(ptype, q)
                except Exception as exc:  # noqa: BLE001
                    out.append((f"is_supported-raised:{type(exc).__name__}", {"query": q}))
                    continue
                if sup != (got is not None):
                    out.append(("is_supported-disagrees-with-get", {"query": q, "is_supported": sup, "get": got}))
    # Lookups for one plug-in type must not influence another type: the same bare / explicit names are asked for
    # every other type and compared with a fresh manager that was never asked anything else.
    cross_queries = ["m1", "m2", "default", "slsqp", "norm", "mean", "tracker", "optimizer", "sort-objective", "scipy/default", "a/m1"]
    for mgr in obj["mgrs"]:
        for other in TYPES:
            if other == ptype:
                continue
            for q in cross_queries:
                got = _lookup_name(mgr, other, q)
                expected = _fresh_answer(other, q)
                if got != expected:
                    out.append(("lookup-for-another-plugin-type-affected", {"type": other, "query": q, "observed": got, "expected": expected,
                                                                           "history": hist, "explored_type": ptype}))
    if observe_state(obj) != state_before:
        out.append(("lookup-changed-state", {"history": hist}))
    return out


def _lookup_name(mgr: Any, ptype: str, query: str) -> Any:
    from ropt.exceptions import ConfigError

    try:
        found = mgr.get_plugin(ptype, query)
    except ConfigError:
        return None
    except Exception as exc:  # noqa: BLE001
        return f"raised:{type(exc).__name__}"
    return next((n for n, p in mgr.plugins(ptype) if p is found), f"foreign:{type(found).__name__}")


_FRESH_ANSWERS: dict[Any, Any] = {}


def _fresh_answer(ptype: str, query: str) -> Any:
    from ropt.plugins import PluginManager

    key = (ptype, query)
    if key not in _FRESH_ANSWERS:
        _FRESH_ANSWERS[key] = _lookup_name(PluginManager(), ptype, query)
    return _FRESH_ANSWERS[key]


def explore(ptype: str, n_mgr: int, names: list[str], tags: list[str], depth: int, merge: bool, lookups: list[str] | None,
            rec: Recorder, label: str, shared: bool = False) -> None:
    add_events = [("add", mi, name, tag, prio) for mi in range(n_mgr) for name in names for tag in tags for prio in (False, True)]
    lookup_events = [("lookup", mi, kind, q) for mi in range(n_mgr) for kind in ("get", "sup") for q in (lookups or [])]
    queries = SYN_QUERIES

    def events(obj: Any, hist: list[Any]) -> list[Any]:
        return add_events + lookup_events

    seen_states = 0

    def check(obj: Any, hist: list[Any]) -> list[tuple[str, Any]]:
        nonlocal seen_states
        problems = check_state(obj, hist, queries)
        j = Judgement(outcome=f"{label}:n={sum(len(m.items) for m in obj['models'])}", transitions=1)
        for sig, detail in problems:
            j.fail(sig, **(detail if isinstance(detail, dict) else {"detail": detail}))
        seen_states += 1
        key = (label, observe_state(obj)) if merge else (label, tuple(map(tuple, hist)))
        rec.add(key, {"ptype": ptype, "n_mgr": n_mgr, "history": [list(e) for e in hist], "shared": shared}, j)
        return []

    result = bfs_mod.bfs(lambda hist: build(ptype, hist, n_mgr, shared), events, lambda obj, hist: observe_state(obj), check,
                         max_depth=depth, merge=merge)
    rec.result.extra[f"bfs_states:{label}"] = result.states
    rec.result.extra[f"bfs_transitions:{label}"] = result.transitions
    rec.result.extra[f"bfs_closed:{label}"] = result.closed
    if merge and not result.closed:
        rec.cap(f"{label}: closure not reached within depth {depth}")


def shards(tier: str, seed: int) -> list[dict[str, Any]]:
    full_names, full_tags = ["a", "A", "b", "c"], ["X", "Y", "Z"]
    out = [{"ptype": "optimizer", "n_mgr": 1, "names": full_names, "tags": full_tags, "depth": 8, "merge": True, "lookups": None,
            "label": "optimizer:1mgr:closure"}]
    if tier == "quick":
        out.append({"ptype": "optimizer", "n_mgr": 2, "names": ["a", "A", "b"], "tags": ["X", "Z"], "depth": 10, "merge": True,
                    "lookups": None, "label": "optimizer:2mgr:closure-reduced"})
        out.append({"ptype": "optimizer", "n_mgr": 1, "names": ["a", "A", "b"], "tags": ["X", "Z"], "depth": 3, "merge": False,
                    "lookups": ["m1", "a/m1", "nope"], "label": "optimizer:nomerge3"})
    else:
        out.append({"ptype": "optimizer", "n_mgr": 2, "names": ["a", "A", "b"], "tags": full_tags, "depth": 12, "merge": True,
                    "lookups": None, "label": "optimizer:2mgr:closure"})
        out.append({"ptype": "optimizer", "n_mgr": 1, "names": ["a", "A", "b"], "tags": ["X", "Z"], "depth": 4, "merge": False,
                    "lookups": ["m1", "a/m1", "nope"], "label": "optimizer:nomerge4"})
        out.append({"ptype": "optimizer", "n_mgr": 2, "names": ["a", "A"], "tags": ["X", "Z"], "depth": 3, "merge": False,
                    "lookups": ["m1", "A/m1"], "label": "optimizer:2mgr:nomerge3"})
    out.append({"ptype": "optimizer", "n_mgr": 1, "names": ["Maße", "maße", "b"], "tags": ["X", "Z"], "depth": 6, "merge": True, "lookups": None,
                "label": "optimizer:1mgr:closure-non-ascii"})
    # ONE plug-in object per tag, registered under several names (aliases)
    out.append({"ptype": "optimizer", "n_mgr": 1, "names": ["a", "b", "c"], "tags": ["X", "Y"], "depth": 6, "merge": True, "lookups": None,
                "label": "optimizer:1mgr:closure-aliases", "shared": True})
    out.append({"ptype": "sampler", "n_mgr": 1, "names": ["a", "b"], "tags": ["X", "Z"], "depth": 6, "merge": True, "lookups": None,
                "label": "sampler:1mgr:closure-aliases", "shared": True})
    for ptype in TYPES[1:]:
        out.append({"ptype": ptype, "n_mgr": 1, "names": ["a", "A", "b"], "tags": full_tags, "depth": 6, "merge": True,
                    "lookups": None, "label": f"{ptype}:1mgr:closure"})
    return out


def run_shard(shard: dict[str, Any]) -> core.ShardResult:
    rec = Recorder(shard)
    explore(shard["ptype"], shard["n_mgr"], shard["names"], shard["tags"], shard["depth"], shard["merge"], shard["lookups"],
            rec, shard["label"], bool(shard.get("shared")))
    return rec.finish()


def run_case(case: dict[str, Any]) -> Judgement:
    hist = [tuple(e) for e in case["history"]]
    obj = build(case["ptype"], hist, case["n_mgr"], bool(case.get("shared")))
    j = Judgement()
    for sig, detail in check_state(obj, hist, SYN_QUERIES):
        j.fail(sig, **(detail if isinstance(detail, dict) else {"detail": detail}))
    return j


if __name__ == "__main__":
    sys.exit(core.main(sys.modules[__name__]))
