"""C01 - ensemble function values are the normalized weighted estimate over realizations."""

from __future__ import annotations

import itertools
import sys
from typing import Any

import numpy as np

from mc import core, ref
from mc.core import Judgement, Recorder
from mc.harness import TableEvaluator, close, make_manager, validate

PROPERTY = "C01"
RULE = (
    "E1 product enumeration through EnsembleEvaluator.calculate: R x realization-weight vector x (n_obj,n_con) x "
    "objective weights x EVERY estimator map F->{mean,stddev} x EVERY filter map F->{none,sort-objective,cvar-objective} (and, with constraints, F->{none,sort-constraint,cvar-constraint}) "
    "x EVERY failure mask over realizations (rotated per batch row) x NaN column x realization_min_success in {0,1,R}. "
    "Per case the same three points are evaluated as single vectors, as a 1xV batch, as a 3-row batch, in a different "
    "order on a used evaluator, and through the functions+gradients path; all must agree with each other and with the "
    "reference (configured or separately computed filter weights, failed->0, renormalize, mean / sample stddev). "
    "Plus values with a common offset of 2^16 for the smallest shapes, and ONE ensemble of 70 realizations evaluated five times on the same evaluator with single failures at indices below and above 64. Trivial: no (point,function) pair has a defined value (no positive-weight success, stddev with <2 positive "
    "weights, filter selects nothing, fewer successes than realization_min_success)."
)
ASSUMPTIONS = [
    "values are distinct dyadic rationals from a table indexed by (point, realization, function)",
    "comparison tolerance 1e-9 relative",
    "filter weights for filtered functions are obtained by calling a separately constructed filter on the same "
    "per-realization values (the filters themselves are decided by C04/C05)",
]
BOUNDS = {
    "quick": "R<=3, F=n_obj+n_con<=3, all estimator maps x all filter maps x all masks",
    "thorough": "R<=4 with F<=3 and F<=4 with R<=3, all estimator maps x all filter maps x all masks",
}


def weight_vectors(n: int) -> dict[str, list[float]]:
    out = {"uniform": [1.0] * n}
    if n > 1:
        out["ramp"] = [float(i + 1) for i in range(n)]
        out["zero1"] = [0.0 if i == 0 else float(i) for i in range(n)]
    if n > 2:
        out["zero2"] = [0.0 if i in (1, n - 1) else 2.0 + i for i in range(n)]
    return out


OBJ_WEIGHTS = {1: [[1.0]], 2: [[1.0, 3.0], [0.0, 1.0]]}


def table(n_real: int, n_fun: int, variant: int, seed: int) -> np.ndarray:
    """values[point, realization, function]: distinct dyadic numbers, no symmetry."""
    pts = 3
    base = np.arange(pts * n_real * n_fun, dtype=np.float64).reshape(pts, n_real, n_fun)
    rng_mul = [7, 11, 13, 5][(variant + seed) % 4]
    vals = ((base * rng_mul) % 32) * 0.25 - 3.0 + base * 0.015625
    if (variant + seed) % 2:
        vals = vals[:, ::-1, :] * 0.5 + 1.0
    if variant >= 100:
        # values that share a large common offset (exactly representable): the spread, not the offset, decides a stddev
        vals = vals + 65536.0
    return np.ascontiguousarray(vals)


def build_config(R: int, wname: str, n_obj: int, n_con: int, ow: list[float], emap: tuple[int, ...],
                 fmap: tuple[int, ...], rms: int, fset: str = "obj", spelled: bool = False) -> dict[str, Any]:
    config: dict[str, Any] = {
        "variables": {"initial_values": [0.0]},
        "realizations": {"weights": weight_vectors(R)[wname], "realization_min_success": rms},
        "objectives": {
            "weights": ow,
            "function_estimators": list(emap[:n_obj]),
            "realization_filters": list(fmap[:n_obj]),
        },
        # method names are case-insensitive and may carry the plug-in name
        "function_estimators": [{"method": "MEAN"}, {"method": "Default/StdDev"}] if spelled else [{"method": "mean"}, {"method": "stddev"}],
        "realization_filters": [
            {"method": "sort-objective", "options": {"sort": [0], "first": 0, "last": max(0, R - 2)}},
            {"method": "cvar-objective", "options": {"sort": [0], "percentile": 0.5}},
        ],
        "gradient": {"number_of_perturbations": 1, "perturbation_magnitudes": 0.001},
    }
    if fset == "con":
        # the two constraint flavours of the filters, ranking the last constraint
        config["realization_filters"] = [
            {"method": "sort-constraint", "options": {"sort": n_con - 1, "first": 0, "last": max(0, R - 2)}},
            {"method": "cvar-constraint", "options": {"sort": n_con - 1, "percentile": 0.5}},
        ]
    if n_con:
        config["nonlinear_constraints"] = {
            "lower_bounds": [0.0] * n_con,
            "upper_bounds": [np.inf] * n_con,
            "function_estimators": list(emap[n_obj:]),
            "realization_filters": list(fmap[n_obj:]),
        }
    return config


def fails(mask: int, R: int, point: int, r: int) -> bool:
    """Failure pattern: `mask` at point 0, rotated by one realization at point 1, nothing fails at point 2."""
    if point == 2:
        return False
    return bool((mask >> ((r + point) % R)) & 1)


def reference(config: Any, values: np.ndarray, failed: np.ndarray, n_obj: int, emap, fmap, rms: int | None = None) -> dict[str, Any]:
    """Reference for one point. values (R,F) finite; failed (R,) bool."""
    from ropt.exceptions import OptimizationAborted
    from ropt.plugins.realization_filter.default import DefaultRealizationFilter

    R, F = values.shape
    out: dict[str, Any] = {"abort": False, "none": False, "values": [None] * F, "fweights": {}}
    # the REQUESTED threshold (clamped to the ensemble size), not what the validated configuration reports
    rms = config.realizations.realization_min_success if rms is None else min(rms, R)
    nanvals = values.copy()
    nanvals[failed, :] = np.nan
    for f in sorted({x for x in fmap if x >= 0}):
        flt = DefaultRealizationFilter(config, f)
        try:
            out["fweights"][f] = np.array(flt.get_realization_weights(nanvals[:, :n_obj], nanvals[:, n_obj:] if F > n_obj else None))
        except OptimizationAborted:
            out["abort"] = True
            return out
    if int(np.count_nonzero(~failed)) < rms:
        out["none"] = True
        return out
    if np.all(failed):
        return out
    cw = config.realizations.weights
    for f in range(F):
        base = cw if fmap[f] < 0 else out["fweights"][fmap[f]]
        w = ref.norm_weights(base, failed)
        if w is None:
            continue
        if emap[f] == 1 and int(np.count_nonzero(w > 0)) < 2:
            out["abort"] = True
            return out
        out["values"][f] = ref.estimate("mean" if emap[f] == 0 else "stddev", np.where(failed, 0.0, values[:, f]), w)
    return out


def observe(result: Any, n_obj: int) -> dict[str, Any]:
    if result.functions is None:
        return {"none": True}
    vals = list(np.asarray(result.functions.objectives, dtype=np.float64))
    if result.functions.constraints is not None:
        vals += list(np.asarray(result.functions.constraints, dtype=np.float64))
    return {
        "none": False,
        "values": vals,
        "weighted": float(result.functions.weighted_objective),
        "failed": np.array(result.realizations.failed_realizations),
        "ow": result.realizations.objective_weights,
        "cw": result.realizations.constraint_weights,
    }


def judge(case: dict[str, Any]) -> Judgement:
    from ropt.ensemble_evaluator import EnsembleEvaluator
    from ropt.exceptions import OptimizationAborted
    from ropt.results import FunctionResults

    j = Judgement()
    R, n_obj, n_con = case["R"], case["n_obj"], case["n_con"]
    F = n_obj + n_con
    emap, fmap = tuple(case["emap"]), tuple(case["fmap"])
    mask, nan_col = case["mask"], case["nan_col"]
    config = validate(build_config(R, case["weights"], n_obj, n_con, case["ow"], emap, fmap, case["rms"], case.get("fset", "obj"),
                                   spelled=case["rms"] == 0))
    tab = table(R, F, case["variant"], case["seed"])

    def fn(x: np.ndarray, r: int) -> np.ndarray:
        point = int(round(float(x[0])))
        vals = tab[point, r].copy()
        if fails(mask, R, point, r):
            vals[nan_col] = np.nan
        return vals

    manager, _ = make_manager()

    def fresh() -> Any:
        return EnsembleEvaluator(config, None, TableEvaluator(fn, n_obj, n_con), manager)

    def run(ens: Any, x: np.ndarray, grad: bool = False) -> Any:
        try:
            res = ens.calculate(x, compute_functions=True, compute_gradients=grad)
        except OptimizationAborted as exc:
            return ("abort", exc.exit_code.name)
        except Exception as exc:  # noqa: BLE001
            return ("exception", type(exc).__name__)
        return [observe(item, n_obj) for item in res if isinstance(item, FunctionResults)]

    refs = []
    for point in range(3):
        failed = np.array([fails(mask, R, point, r) for r in range(R)])
        refs.append((failed, reference(config, tab[point], failed, n_obj, emap, fmap, rms=case["rms"])))

    transitions = 0
    nontrivial_pairs = 0
    ow_norm = np.asarray(config.objectives.weights)

    def compare(tag: str, point: int, obs: Any) -> None:
        nonlocal nontrivial_pairs
        failed, expected = refs[point]
        if isinstance(obs, tuple):
            if expected["abort"] and obs[0] == "abort":
                return
            if bool(np.all(failed)) and obs[0] == "abort":
                return  # nothing succeeded: no value is defined, an abort is not judged here (C14)
            if obs[0] == "abort" and not expected["abort"]:
                j.fail(f"unexpected-abort:{obs[1]}", tag=tag, point=point)
            elif obs[0] == "exception":
                # an unrelated exception type: only judged here when the reference expects a value
                if not expected["abort"]:
                    j.fail(f"unexpected-exception:{obs[1]}", tag=tag, point=point)
            return
        if expected["abort"]:
            j.fail("expected-abort-but-returned", tag=tag, point=point)
            return
        if expected["none"] != obs["none"]:
            j.fail("functions-none-mismatch", tag=tag, point=point, expected_none=expected["none"])
            return
        if obs["none"]:
            return
        if not np.array_equal(obs["failed"], failed):
            j.fail("failed-flags", tag=tag, point=point, observed=obs["failed"], expected=failed)
        all_defined = True
        for f in range(F):
            exp = expected["values"][f]
            if exp is None:
                if f < n_obj:
                    all_defined = False
                continue
            nontrivial_pairs += 1
            if not close(obs["values"][f], exp, 1e-9):
                kind = "filtered" if fmap[f] >= 0 else "unfiltered"
                est = "mean" if emap[f] == 0 else "stddev"
                j.fail(f"value-mismatch:{est}:{kind}", tag=tag, point=point, function=f, observed=obs["values"][f], expected=exp)
        if all_defined and n_obj:
            exp_w = float(sum(ow_norm[k] * expected["values"][k] for k in range(n_obj)))
            if not close(obs["weighted"], exp_w, 1e-9):
                j.fail("weighted-objective", tag=tag, point=point, observed=obs["weighted"], expected=exp_w)
        for f in range(F):
            if fmap[f] >= 0:
                block = obs["ow"] if f < n_obj else obs["cw"]
                row = f if f < n_obj else f - n_obj
                if block is None or not np.array_equal(np.asarray(block)[row], expected["fweights"][fmap[f]]):
                    j.fail("reported-filter-weights", tag=tag, point=point, function=f)

    xs = [np.array([float(p)]) for p in range(3)]
    obs = run(fresh(), xs[0])
    transitions += 1
    compare("single", 0, obs if isinstance(obs, tuple) else obs[0])

    # 1xV batch of point 0
    if case.get("batch1", True):
        obs = run(fresh(), xs[0][np.newaxis, :])
        transitions += 1
        compare("batch1", 0, obs if isinstance(obs, tuple) else obs[0])

    # 3-row batch: rows must equal the reference of each point (unless some row aborts the whole batch)
    any_abort = any(r[1]["abort"] for r in refs)
    obs = run(fresh(), np.vstack(xs))
    transitions += 1
    if isinstance(obs, tuple):
        if not any_abort:
            compare("batch3", 0, obs)
    else:
        if len(obs) != 3:
            j.fail("batch-result-count", observed=len(obs))
        else:
            for point in range(3):
                compare("batch3", point, obs[point])

    # evaluation order: points 2, 1 first, then 0 on the same (used) evaluator
    ens = fresh()
    for point in (2, 1, 0):
        obs = run(ens, xs[point])
        transitions += 1
        compare("order", point, obs if isinstance(obs, tuple) else obs[0])

    # functions + gradients path
    obs = run(fresh(), xs[0], grad=True)
    transitions += 1
    compare("both", 0, obs if isinstance(obs, tuple) else obs[0])

    # functions + gradients where a realization fails ONLY in its perturbations: that concerns the gradient, the function
    # values of the point are those of the unperturbed evaluations (compared when the evaluation returns results)
    if case.get("pertfail", True):
        for pf_real in (mask % R,):
            ev = TableEvaluator(fn, n_obj, n_con, fail=lambda call, row, r, p, pf=pf_real: [0] if (p >= 0 and r == pf) else None)
            obs = run(EnsembleEvaluator(config, None, ev, manager), xs[2], grad=True)
            transitions += 1
            if not isinstance(obs, tuple):
                compare(f"both:perturbations-of-realization-{pf_real}-fail", 2, obs[0])

    j.transitions = transitions
    j.trivial = nontrivial_pairs == 0
    m0 = R - bin(mask).count("1")
    j.outcome = f"m={m0}/pairs={'0' if nontrivial_pairs == 0 else '+'}/abort={any_abort}/none={refs[0][1]['none']}"
    return j


def judge_large(case: dict[str, Any]) -> Judgement:
    """ONE ensemble far beyond the enumerated sizes (70 realizations, mean and stddev of one objective each), evaluated
    four times on the same evaluator with different single failures, incl. realizations with an index above 64."""
    from ropt.ensemble_evaluator import EnsembleEvaluator
    from ropt.results import FunctionResults

    j = Judgement()
    R = 70
    weights = [1.0 + (i % 5) for i in range(R)]
    config = validate({
        "variables": {"initial_values": [0.0]},
        "realizations": {"weights": weights, "realization_min_success": 1},
        "objectives": {"weights": [1.0, 1.0], "function_estimators": [0, 1]},
        "function_estimators": [{"method": "mean"}, {"method": "stddev"}],
        "gradient": {"number_of_perturbations": 1, "perturbation_magnitudes": 0.001},
    })
    values = np.array([[((7 * r) % 32) * 0.25 - 3.0 + r * 0.015625, ((11 * r) % 16) * 0.5 + 1.0] for r in range(R)])
    failing = [{65}, {66}, {3, 69}, set(), {64}]
    state = {"call": 0}

    def fn(x: np.ndarray, r: int) -> np.ndarray:
        return np.where(r in failing[state["call"]], np.nan, values[r])

    manager, _ = make_manager()
    ens = EnsembleEvaluator(config, None, TableEvaluator(fn, 2, 0), manager)
    cw = np.asarray(config.realizations.weights)
    for k in range(len(failing)):
        state["call"] = k
        (result,) = [item for item in ens.calculate(np.array([float(k)]), compute_functions=True, compute_gradients=False) if isinstance(item, FunctionResults)]
        failed = np.array([r in failing[k] for r in range(R)])
        w = ref.norm_weights(cw, failed)
        expected = [ref.estimate("mean", np.where(failed, 0.0, values[:, 0]), w), ref.estimate("stddev", np.where(failed, 0.0, values[:, 1]), w)]
        observed = list(np.asarray(result.functions.objectives, dtype=np.float64))
        if not np.array_equal(np.asarray(result.realizations.failed_realizations), failed):
            j.fail("large-ensemble:failed-flags", call=k, expected=sorted(failing[k]))
        for f, name in enumerate(("mean", "stddev")):
            if not close(observed[f], expected[f], 1e-9):
                j.fail(f"large-ensemble:value-mismatch:{name}", call=k, failing=sorted(failing[k]), observed=observed[f], expected=expected[f])
    j.transitions = len(failing)
    j.outcome = "large-ensemble"
    return j


def shards(tier: str, seed: int) -> list[dict[str, Any]]:
    out: list[dict[str, Any]] = [{"kind": "large", "tier": tier, "seed": seed}]
    # values with a large common offset, for the smallest shapes
    for R in (2, 3):
        for wname in ("uniform", "ramp"):
            out.append({"R": R, "n_obj": 1, "n_con": 1, "ow": [1.0], "weights": wname, "variant": 100,
                        "emaps": list(itertools.product((0, 1), repeat=2)), "seed": seed, "tier": tier, "fset": "obj"})
    rmax, fmax = (3, 3) if tier == "quick" else (4, 4)
    variants = (0,)
    for R in range(1, rmax + 1):
        for n_obj in (1, 2):
            for n_con in (0, 1, 2):
                F = n_obj + n_con
                if F > fmax or (tier == "thorough" and R == 4 and F == 4):
                    continue  # thorough: R=4 with F<=3 and F=4 with R<=3 (the R=4,F=4 corner alone is 60% of the product)
                for ow in OBJ_WEIGHTS[n_obj]:
                    for wname in weight_vectors(R):
                        if tier == "quick" and wname == "ramp" and R == 3:
                            continue  # quick: uniform / one zero / two zeros at R=3 (ramp is covered at R=2 and in thorough)
                        for variant in variants:
                            emaps = list(itertools.product((0, 1), repeat=F))
                            for group in core.chunked(emaps, 1 if F >= 4 else 4):
                                out.append({"R": R, "n_obj": n_obj, "n_con": n_con, "ow": ow, "weights": wname,
                                            "variant": variant, "emaps": group, "seed": seed, "tier": tier, "fset": "obj"})
                                # constraint flavours of the filters (quick: one objective; thorough: F<=3)
                                if n_con and F <= 3 and (tier == "thorough" or n_obj == 1):
                                    out.append({**out[-1], "fset": "con"})
    return out


def run_shard(shard: dict[str, Any]) -> core.ShardResult:
    rec = Recorder(shard)
    if shard.get("kind") == "large":
        case = {"kind": "large"}
        rec.add(("large",), case, judge_large(case))
        return rec.finish()
    R, n_obj, n_con = shard["R"], shard["n_obj"], shard["n_con"]
    F = n_obj + n_con
    for emap in shard["emaps"]:
        for fmap in itertools.product((-1, 0, 1), repeat=F):
            for mask in range(2**R):
                for nan_col in sorted({0, F - 1}):
                    if mask == 0 and nan_col != 0:
                        continue
                    for rms in sorted({0, 1, R} if shard["tier"] == "thorough" or R < 3 else {0, R}):
                        case = {"R": R, "n_obj": n_obj, "n_con": n_con, "ow": shard["ow"], "weights": shard["weights"],
                                "variant": shard["variant"], "emap": list(emap), "fmap": list(fmap), "mask": mask,
                                "nan_col": nan_col, "rms": rms, "seed": shard["seed"], "batch1": shard["tier"] == "thorough" or mask == 0,
                                "fset": shard.get("fset", "obj")}
                        j = judge(case)
                        rec.add((R, n_obj, n_con, tuple(shard["ow"]), shard["weights"], shard["variant"], emap, fmap, mask, nan_col, rms,
                                 shard.get("fset", "obj")), case, j)
    return rec.finish()


def run_case(case: dict[str, Any]) -> Judgement:
    if case.get("kind") == "large":
        return judge_large(case)
    return judge(case)


if __name__ == "__main__":
    sys.exit(core.main(sys.modules[__name__]))
