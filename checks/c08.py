"""C08 - the problem handed to SciPy is equivalent to the configured problem."""

from __future__ import annotations

import contextlib
import itertools
import sys
from typing import Any

import numpy as np

from mc import core
from mc.core import Judgement, Recorder
from mc.harness import scipy_entry_points, validate

PROPERTY = "C08"
RULE = (
    "E1 product enumeration with a capture driver in place of scipy.optimize.minimize / differential_evolution (replaced in "
    "the plug-in module namespace): EVERY vector of constraint kinds {eq, lower, upper, two-sided, unbounded, narrow two-sided} for up to N "
    "non-linear x up to N linear constraints (N=2 quick, 3 thorough) for the constraint-capable methods (slsqp, cobyla, "
    "differential_evolution); single kinds and pairs for the other seven methods; x variable mask {none, one fixed, two "
    "fixed} x variable-bound settings {none, both, mixed, upper-only, lower-only, a single finite upper bound, a single finite lower bound} x options {None, {}, dict} x max_iterations. Oracle on an integer lattice of "
    "test points (affine constraints with integer coefficients, bounds at integers, so no tolerance): "
    "configured-feasible(x) => handed-feasible(x) => feasible w.r.t. bounds, non-linear constraints and every linear row that "
    "does not touch a fixed variable (plus, per constraint row and bound, points 2^-12 inside/outside/on the bound and in the "
    "middle of two-sided bands, incl. bands that are narrow relative to their magnitude: width 2^-7 at 1000 and width 2^-11 at 2^20, i.e. below a relative 1e-9); each dict jac == exact difference quotient of its own fun; with parallel evaluation the vectorized constraint object handed to differential_evolution returns, for a block of members, column by column the values of the single members; max_iterations reaches the "
    "back-end for every options form; The same optimizer object is then started a second time from another point (other values of the fixed variables) and the lattice oracle is repeated on what is handed over then. NotImplementedError is an acceptable answer, silently handing a non-equivalent "
    "problem is not. Every accepted configuration is non-trivial; rejected ones are counted trivial."
)
ASSUMPTIONS = [
    "what SciPy does with the handed problem is trusted; only the seam is checked",
    "a linear row touching a fixed variable may be absent (statement: 'every retained linear constraint'), but if handed it must be the exact restriction",
]
BOUNDS = {
    "quick": "<=2 non-linear x <=2 linear kinds (6 kinds); kind vectors of total length <=2 crossed with 3 masks x 7 bound settings x 4 option variants, longer ones with 3 masks",
    "thorough": "<=3 x <=3 kinds; longer vectors with 3 masks x 3 bound settings",
}

KINDS = ["eq", "lower", "upper", "two", "free", "narrow"]
NARROW_WIDTH = 2.0**-7
CAPABLE = ["slsqp", "cobyla", "differential_evolution"]
OTHERS = ["nelder-mead", "powell", "cg", "bfgs", "newton-cg", "l-bfgs-b", "tnc"]
V = 3
X0 = np.array([1.0, 0.0, 2.0])
NL_COEF = np.array([[1.0, -1.0, 2.0], [2.0, 1.0, 0.0], [0.0, -1.0, 1.0]])
NL_OFF = np.array([0.0, -1.0, 1.0])
# (row 1: with variables 0 and 2 fixed its coefficients on the fixed variables are non-zero but cancel in the sum)
LIN_COEF = np.array([[1.0, 1.0, 0.0], [1.0, 2.0, -1.0], [1.0, 0.0, 0.0]])
X1 = np.array([0.0, 1.0, 3.0])  # start point of the second start() (differs from X0 in every entry)


def kind_bounds(kind: str, idx: int) -> tuple[float, float]:
    return {
        "eq": (1.0 + idx, 1.0 + idx),
        "lower": (0.0 - idx, np.inf),
        "upper": (-np.inf, 2.0 + idx),
        # the first two-sided band is symmetric about zero (upper == -lower is not an equality)
        "two": (-2.0, 2.0) if idx == 0 else (-1.0, 2.0 + idx),
        "free": (-np.inf, np.inf),
        # a two-sided band that is narrow relative to its magnitude is still an inequality, not an equality
        # (from the second one on at magnitude 2^20 with width 2^-11: a relative width below 1e-9, all values exact)
        "narrow": (1000.0 + idx, 1000.0 + idx + NARROW_WIDTH) if idx == 0 else (2.0**20 + idx, 2.0**20 + idx + 2.0**-11),
    }[kind]


MASKS = {"none": None, "fix1": [True, False, True], "fix2": [False, True, False]}
VBOUNDS = {
    "none": ([-np.inf] * 3, [np.inf] * 3),
    "both": ([-1.0, -2.0, 0.0], [2.0, 1.0, 3.0]),
    "mixed": ([-1.0, -np.inf, -np.inf], [np.inf, 1.0, np.inf]),
    "upper-only": ([-np.inf, -np.inf, -np.inf], [2.0, 1.0, np.inf]),
    "lower-only": ([-1.0, -np.inf, 0.0], [np.inf, np.inf, np.inf]),
    # a single finite bound among infinite ones, on one side only
    "upper-partial": ([-np.inf, -np.inf, -np.inf], [np.inf, 1.0, np.inf]),
    "lower-partial": ([-np.inf, -2.0, -np.inf], [np.inf, np.inf, np.inf]),
}
OPTIONS = {"none": None, "empty": {}, "dict": {"ftol": 1e-3}}


class Captured(Exception):
    pass


@contextlib.contextmanager
def capture() -> Any:
    import ropt.plugins.optimizer.scipy as plugin

    box: dict[str, Any] = {}

    def fake_minimize(**kwargs: Any) -> None:
        box["minimize"] = kwargs

    def fake_de(**kwargs: Any) -> None:
        box["de"] = kwargs

    with scipy_entry_points(fake_minimize, fake_de):
        yield box


def build_config(case: dict[str, Any]) -> dict[str, Any]:
    lb, ub = VBOUNDS[case["vbounds"]]
    variables: dict[str, Any] = {"initial_values": X0.tolist(), "lower_bounds": lb, "upper_bounds": ub}
    if MASKS[case["mask"]] is not None:
        variables["mask"] = MASKS[case["mask"]]
    config: dict[str, Any] = {"variables": variables}
    nl, lin = case["nl"], case["lin"]
    if nl:
        bounds = [kind_bounds(k, i) for i, k in enumerate(nl)]
        config["nonlinear_constraints"] = {"lower_bounds": [b[0] for b in bounds], "upper_bounds": [b[1] for b in bounds]}
    if lin:
        bounds = [kind_bounds(k, i + 1) for i, k in enumerate(lin)]
        config["linear_constraints"] = {
            "coefficients": LIN_COEF[: len(lin)].tolist(),
            "lower_bounds": [b[0] for b in bounds],
            "upper_bounds": [b[1] for b in bounds],
        }
    optimizer: dict[str, Any] = {"method": case["method"]}
    if case["maxiter"]:
        optimizer["max_iterations"] = 7
    if OPTIONS[case["options"]] is not None:
        optimizer["options"] = dict(OPTIONS[case["options"]])
        if case["method"] == "differential_evolution":
            optimizer["options"] = {k: v for k, v in optimizer["options"].items() if k != "ftol"}
            if case["options"] == "dict":
                optimizer["options"]["popsize"] = 5
    if case["method"] in ("slsqp", "l-bfgs-b", "tnc", "cg", "bfgs", "newton-cg"):
        optimizer["tolerance"] = 1e-4
    if case.get("parallel"):
        optimizer["parallel"] = True
    config["optimizer"] = optimizer
    return config


def lattice(d: int) -> list[np.ndarray]:
    axis = [-2.0, -1.0, 0.0, 1.0, 2.0, 3.0]
    if d == 1:
        axis = [-3.0, -2.0, -1.0, 0.0, 1.0, 2.0, 3.0, 4.0]
    if d == 3:
        axis = [-2.0, -1.0, 1.0, 2.0, 3.0]
    return [np.array(p) for p in itertools.product(axis, repeat=d)]


def judge(case: dict[str, Any]) -> Judgement:
    from scipy.optimize import Bounds, LinearConstraint, NonlinearConstraint

    from ropt.plugins.optimizer.scipy import SciPyOptimizer

    j = Judgement()
    method = case["method"]
    config = validate(build_config(case))
    mask = np.ones(V, dtype=bool) if config.variables.mask is None else np.asarray(config.variables.mask)
    d = int(mask.sum())
    n_nl = len(case["nl"])
    calls = {"n": 0}

    start_ref = {"x": X0}

    def full(x_free: np.ndarray) -> np.ndarray:
        x = start_ref["x"].copy()
        x[mask] = x_free
        return x

    def callback(variables: np.ndarray, *, return_functions: bool, return_gradients: bool) -> tuple[np.ndarray, np.ndarray]:
        calls["n"] += 1
        variables = np.asarray(variables, dtype=np.float64)
        batch = variables.ndim > 1
        rows = variables if batch else variables[np.newaxis, :]
        functions = np.array([])
        gradients = np.array([])
        if return_functions:
            vals = []
            for row in rows:
                x = full(row)
                vals.append([float(x.sum())] + [float(NL_COEF[k] @ x + NL_OFF[k]) for k in range(n_nl)])
            functions = np.array(vals) if batch else np.array(vals[0])
        if return_gradients:
            gradients = np.vstack([np.ones(d)] + [NL_COEF[k][mask] for k in range(n_nl)])
        return functions, gradients

    with capture() as box:
        try:
            optimizer = SciPyOptimizer(config, callback)
            optimizer.start(X0.copy())
        except NotImplementedError:
            j.trivial = True
            j.outcome = f"{method}:rejected"
            # rejection of something the method supports would be over-strict but is not a violation of the statement
            return j
        except Exception as exc:  # noqa: BLE001
            j.fail(f"creation-raised:{type(exc).__name__}", message=str(exc)[:200])
            return j
    handed = box.get("minimize") or box.get("de")
    if handed is None:
        j.fail("backend-not-called")
        return j
    is_de = "de" in box
    # ---------------------------------------------------------------- kinds the back-end cannot handle are rejected
    # (SciPy's documentation: CG, BFGS and Newton-CG take neither bounds nor constraints; they would ignore them)
    if method in ("cg", "bfgs", "newton-cg"):
        finite_bound = bool(np.any(np.isfinite(np.asarray(config.variables.lower_bounds))) or np.any(np.isfinite(np.asarray(config.variables.upper_bounds))))
        if finite_bound or case["nl"] or case["lin"]:
            j.fail("unsupported-constraint-kind-not-rejected", method=method, vbounds=case["vbounds"], nl=case["nl"], lin=case["lin"])
    # ---------------------------------------------------------------- x0 and bounds
    x0 = np.asarray(handed["x0"])
    if x0.shape != (d,) or not np.array_equal(x0, X0[mask]):
        j.fail("x0-not-free-variables", observed=x0, expected=X0[mask])
    lb_cfg = np.asarray(config.variables.lower_bounds)[mask]
    ub_cfg = np.asarray(config.variables.upper_bounds)[mask]
    hb = handed.get("bounds")
    if hb is None:
        h_lb, h_ub = np.full(d, -np.inf), np.full(d, np.inf)
    elif isinstance(hb, Bounds):
        h_lb, h_ub = np.broadcast_to(np.asarray(hb.lb, dtype=float), (d,)), np.broadcast_to(np.asarray(hb.ub, dtype=float), (d,))
    else:
        j.fail("bounds-object-type", type=type(hb).__name__)
        return j
    if not (np.array_equal(h_lb, lb_cfg) and np.array_equal(h_ub, ub_cfg)):
        j.fail("bounds-not-configured-bounds", observed=[h_lb, h_ub], expected=[lb_cfg, ub_cfg], mask=case["mask"])
    # ---------------------------------------------------------------- constraints
    constraints = handed.get("constraints") or []
    if not isinstance(constraints, (list, tuple)):
        constraints = [constraints]

    def handed_feasible(x: np.ndarray) -> bool:
        if np.any(x < h_lb) or np.any(x > h_ub):
            return False
        for con in constraints:
            if isinstance(con, dict):
                # SciPy's dict constraints may be vector valued: every component = 0 (eq) or >= 0 (ineq)
                values = np.asarray(con["fun"](x.copy()), dtype=float).reshape(-1)
                if con["type"] == "eq":
                    if np.any(values != 0.0):
                        return False
                elif np.any(values < 0.0):
                    return False
            elif isinstance(con, LinearConstraint):
                values = np.asarray(con.A) @ x
                if np.any(values < np.asarray(con.lb)) or np.any(values > np.asarray(con.ub)):
                    return False
            elif isinstance(con, NonlinearConstraint):
                values = np.asarray(con.fun(x.copy())).reshape(-1)
                if np.any(values < np.asarray(con.lb)) or np.any(values > np.asarray(con.ub)):
                    return False
            else:
                raise TypeError(type(con))
        return True

    lin_cfg = config.linear_constraints
    touches_fixed = [] if lin_cfg is None else [bool(np.any(np.asarray(lin_cfg.coefficients)[r][~mask] != 0)) for r in range(len(case["lin"]))]

    def cfg_feasible(x_free: np.ndarray, *, all_rows: bool) -> bool:
        if np.any(x_free < lb_cfg) or np.any(x_free > ub_cfg):
            return False
        x = full(x_free)
        if config.nonlinear_constraints is not None:
            values = NL_COEF[:n_nl] @ x + NL_OFF[:n_nl]
            if np.any(values < np.asarray(config.nonlinear_constraints.lower_bounds)) or np.any(values > np.asarray(config.nonlinear_constraints.upper_bounds)):
                return False
        if lin_cfg is not None:
            values = np.asarray(lin_cfg.coefficients) @ x
            for r in range(len(case["lin"])):
                if not all_rows and touches_fixed[r]:
                    continue
                if values[r] < lin_cfg.lower_bounds[r] or values[r] > lin_cfg.upper_bounds[r]:
                    return False
        return True

    # Special points: for every constraint row and each of its finite bounds (and the middle of a two-sided band) points
    # whose row value sits 2^-12 inside / outside the bound, obtained by moving one free coordinate from a base point.
    special: list[np.ndarray] = []
    rows_free: list[tuple[np.ndarray, float, float, float]] = []  # (coefficients on free vars, constant, lb, ub)
    if config.nonlinear_constraints is not None:
        for k in range(n_nl):
            const = float(NL_COEF[k][~mask] @ X0[~mask] + NL_OFF[k])
            rows_free.append((NL_COEF[k][mask], const, float(config.nonlinear_constraints.lower_bounds[k]), float(config.nonlinear_constraints.upper_bounds[k])))
    if lin_cfg is not None:
        coef = np.asarray(lin_cfg.coefficients)
        for r in range(len(case["lin"])):
            rows_free.append((coef[r][mask], float(coef[r][~mask] @ X0[~mask]), float(lin_cfg.lower_bounds[r]), float(lin_cfg.upper_bounds[r])))
    base_point = np.array([1.0, -1.0, 2.0])[:d]
    delta = 2.0**-12
    for a, const, lb_r, ub_r in rows_free:
        nz = np.flatnonzero(a)
        if nz.size == 0:
            continue
        i = int(nz[0])
        targets = []
        for b in (lb_r, ub_r):
            if np.isfinite(b):
                targets += [b - delta, b + delta, b]
        if np.isfinite(lb_r) and np.isfinite(ub_r) and ub_r > lb_r:
            targets.append((lb_r + ub_r) / 2)
        for target in targets:
            x = base_point.copy()
            x[i] += (target - (float(a @ base_point) + const)) / a[i]
            special.append(x)
    n_feasible = 0
    flush_point = np.full(d, -77.0)
    n_lattice = len(lattice(d))
    for index, x in enumerate(lattice(d) + special):
        try:
            if index >= n_lattice:
                # special points of one row are closer together than the separation the plug-in's point cache needs
                # (C07 grants 1e-3(1+|x|)): visit a far-away point in between, as an algorithm's steps would
                for con in constraints:
                    if isinstance(con, dict):
                        con["fun"](flush_point.copy())
                        break
                    if isinstance(con, NonlinearConstraint):
                        con.fun(flush_point.copy())
                        break
            h = handed_feasible(x)
        except Exception as exc:  # noqa: BLE001
            j.fail(f"handed-constraint-raised:{type(exc).__name__}", message=str(exc)[:200])
            break
        strong, weak = cfg_feasible(x, all_rows=True), cfg_feasible(x, all_rows=False)
        n_feasible += int(h)
        if strong and not h:
            j.fail("configured-feasible-point-rejected-by-handed-problem", x=x, nl=case["nl"], lin=case["lin"], mask=case["mask"])
            break
        if h and not weak:
            j.fail("handed-problem-accepts-configured-infeasible-point", x=x, nl=case["nl"], lin=case["lin"], mask=case["mask"])
            break
    # ---------------------------------------------------------------- jacobians
    probe = np.array([1.0, -1.0, 2.0])[:d]
    for index, con in enumerate(constraints):
        if isinstance(con, dict) and "jac" in con:
            base = np.asarray(con["fun"](probe.copy()), dtype=float).reshape(-1)
            jac = np.asarray(con["jac"](probe.copy()), dtype=float).reshape(base.size, -1)
            exact = np.stack([np.asarray(con["fun"](probe + np.eye(d)[i]), dtype=float).reshape(-1) - base for i in range(d)], axis=1)
            if jac.shape != (base.size, d) or not np.array_equal(jac, exact):
                j.fail("constraint-jacobian-not-derivative-of-its-value", index=index, observed=jac, expected=exact, nl=case["nl"], lin=case["lin"])
        if isinstance(con, NonlinearConstraint) and con.jac is not None and callable(con.jac) and method != "differential_evolution":
            pass
    # ---------------------------------------------------------------- vectorized constraint objects
    if is_de and handed.get("vectorized"):
        # SciPy hands a (d, S) block of S population members to a vectorized constraint and expects (M, S) back: column s
        # must hold the constraint values of member s
        members = [np.asarray(x, dtype=float) for x in lattice(d)[:5]]
        block = np.stack(members, axis=1)
        for index, con in enumerate(constraints):
            if isinstance(con, NonlinearConstraint):
                try:
                    got = np.asarray(con.fun(block.copy()), dtype=float)
                    single = np.stack([np.asarray(con.fun(x.copy()), dtype=float).reshape(-1) for x in members], axis=1)
                except Exception as exc:  # noqa: BLE001
                    j.fail(f"vectorized-constraint-raised:{type(exc).__name__}", message=str(exc)[:200])
                    continue
                if got.shape != single.shape or not np.array_equal(got, single):
                    j.fail("vectorized-constraint-values-not-per-member", index=index, observed=got, expected=single, nl=case["nl"])
    if method == "cobyla" and any(isinstance(c, dict) and "jac" in c for c in constraints):
        pass  # harmless
    # ---------------------------------------------------------------- iteration limit, tolerance
    if case["maxiter"]:
        key = "maxfun" if method == "tnc" else "maxiter"
        opts = handed if is_de else (handed.get("options") or {})
        if opts.get(key) != 7:
            j.fail(f"max_iterations-not-handed:options={case['options']}", method=method, observed=opts.get(key))
    if not is_de and "tolerance" in build_config(case)["optimizer"] and handed.get("tol") != 1e-4:
        j.fail("tolerance-not-handed", observed=handed.get("tol"))
    user_opts = OPTIONS[case["options"]]
    if user_opts and not is_de:
        for key, value in user_opts.items():
            if (handed.get("options") or {}).get(key) != value:
                j.fail("user-option-not-handed", key=key)
    # ---------------------------------------------------------------- a second start() of the SAME optimizer object
    # from another point (other values of the fixed variables): what is handed over then is equivalent to the configured
    # problem at THAT point, and nothing computed in the first run is served again
    if not j.violations:
        first_constraints, first_bounds = constraints, (h_lb, h_ub)
        start_ref["x"] = X1
        with capture() as box2:
            try:
                optimizer.start(X1.copy())
            except Exception as exc:  # noqa: BLE001
                j.fail(f"second-start-raised:{type(exc).__name__}", message=str(exc)[:200])
        handed2 = box2.get("minimize") or box2.get("de")
        if handed2 is not None and not j.violations:
            constraints = handed2.get("constraints") or []
            if not isinstance(constraints, (list, tuple)):
                constraints = [constraints]
            if not np.array_equal(np.asarray(handed2["x0"]), X1[mask]):
                j.fail("second-start:x0-not-free-variables", observed=handed2["x0"], expected=X1[mask])
            for x in lattice(d):
                try:
                    h = handed_feasible(x)
                except Exception as exc:  # noqa: BLE001
                    j.fail(f"second-start:handed-constraint-raised:{type(exc).__name__}", message=str(exc)[:200])
                    break
                if cfg_feasible(x, all_rows=True) and not h:
                    j.fail("second-start:configured-feasible-point-rejected-by-handed-problem", x=x, nl=case["nl"], lin=case["lin"], mask=case["mask"])
                    break
                if h and not cfg_feasible(x, all_rows=False):
                    j.fail("second-start:handed-problem-accepts-configured-infeasible-point", x=x, nl=case["nl"], lin=case["lin"], mask=case["mask"])
                    break
        constraints, (h_lb, h_ub) = first_constraints, first_bounds
        start_ref["x"] = X0
    j.transitions = calls["n"] + 1
    j.outcome = f"{method}:accepted:feasible={'some' if n_feasible else 'none'}:mask={case['mask']}"
    return j


def kind_vectors(nmax: int) -> list[tuple[str, ...]]:
    out: list[tuple[str, ...]] = [()]
    for n in range(1, nmax + 1):
        out += list(itertools.product(KINDS, repeat=n))
    return out


def shards(tier: str, seed: int) -> list[dict[str, Any]]:
    nmax = 2 if tier == "quick" else 3
    out = []
    for method in CAPABLE:
        for nl in kind_vectors(nmax):
            out.append({"method": method, "nl": list(nl), "lin_max": nmax, "full": True, "tier": tier})
    for method in OTHERS:
        out.append({"method": method, "nl": None, "lin_max": 2, "full": False, "tier": tier})
    return out


def run_shard(shard: dict[str, Any]) -> core.ShardResult:
    rec = Recorder(shard)
    method = shard["method"]
    thorough = shard["tier"] == "thorough"
    if shard["full"]:
        nls = [tuple(shard["nl"])]
        lins = kind_vectors(shard["lin_max"])
    else:
        small = [(), ("eq",), ("lower",), ("upper",), ("two",), ("free",), ("eq", "lower")]
        nls, lins = small, small
    for nl in nls:
        for lin in lins:
            for mask in MASKS:
                for vb in VBOUNDS:
                    for opts in OPTIONS:
                        for maxiter in (True, False):
                            if not maxiter and opts != "none":
                                continue
                            total = len(nl) + len(lin)
                            if shard["full"] and total >= 3:
                                # larger kind vectors: every mask, but only the listed bound settings and options=None
                                allowed_vb = ("both",) if not thorough else ("none", "both", "upper-only")
                                if vb not in allowed_vb or opts != "none" or not maxiter:
                                    continue
                            case = {"method": method, "nl": list(nl), "lin": list(lin), "mask": mask, "vbounds": vb,
                                    "options": opts, "maxiter": maxiter}
                            j = judge(case)
                            rec.add((method, nl, lin, mask, vb, opts, maxiter), case, j)
                            if method == "differential_evolution" and opts == "none" and maxiter:
                                # the population method with parallel evaluation: vectorized callables are handed over
                                case = {**case, "parallel": True}
                                rec.add((method, nl, lin, mask, vb, opts, maxiter, "parallel"), case, judge(case))
    return rec.finish()


def run_case(case: dict[str, Any]) -> Judgement:
    return judge(case)


if __name__ == "__main__":
    sys.exit(core.main(sys.modules[__name__]))
