"""C20 - external-process runs equal in-process runs; process death is never success."""

from __future__ import annotations

import json
import os
import subprocess
import sys
import tempfile
import time
from pathlib import Path
from typing import Any

import numpy as np

from mc import core
from mc.core import Judgement, Recorder

PROPERTY = "C20"
RULE = (
    "E2 exploration over REAL two-process executions (the real ExternalOptimizer parent and the real runner child, started "
    "through a PATH shim that wraps the child's request function and pipe communicator with a message counter and a fault "
    "injector). (a) trace equality: a configuration alphabet {slsqp plain; with bounds + linear + non-linear constraints; "
    "mask; mask with two non-linear constraints; small max_functions; a start point handed to the step that differs from the configured initial values; NaN at evaluation k (TOO_FEW_REALIZATIONS); user abort at evaluation k; nelder-mead; "
    "differential_evolution(seed); two optimizations run one after the other in the same process with 'external/scipy/<method>' "
    "names} is run in-process and as external/<method>: evaluator request bytes, result bytes and "
    "exit code must be equal. (b) crash points: with M messages exchanged in the baseline run, for EVERY m <= M the child is "
    "killed (SIGKILL / SIGTERM / exit 3) before it sends request m / after it receives answer m, and the optimizer inside the child "
    "raises at m (error-report path). (c) the parent's evaluator raises ValueError at EACH evaluation. (d) one 'pending' "
    "poll (read or write returning not-ready) at every message index on either side (deviation bound 1) must not change "
    "the trace. Oracle: after child death/error the step ends with an exception or a non-success exit code, never "
    "OPTIMIZER_STEP_FINISHED; no execution exceeds the 120 s horizon; when the step returns or the evaluator's exception "
    "propagates no runner process is alive. Every execution is non-trivial."
)
ASSUMPTIONS = [
    "OS scheduling of the two processes is not controlled: the protocol is lock-step request/answer, so traces do not "
    "depend on timing; pending polls are the explored deviation",
    "a hang is detected by the wall-clock horizon of 120 s per execution",
]
BOUNDS = {
    "quick": "(a) 9 configurations; (b) crash points at every message of a short baseline run, 2 death modes + raise; (c) every evaluation; (d) every index, both sides",
    "thorough": "(a) all 11 configurations plus the grid of all 10 supported methods x mask x accepted constraint sets (45 configurations); (b) every message x 5 fault kinds on two configurations; (c), (d) as quick on two configurations",
}
HORIZON = 120


# ---------------------------------------------------------------------------- worker (one execution, own process)


def worker_config(name: str, external: bool) -> dict[str, Any]:
    method = {"nelder-mead": "nelder-mead", "de": "differential_evolution", "cobyla": "cobyla", "powell": "powell", "cg": "cg",
              "bfgs": "bfgs", "newton-cg": "newton-cg", "lbfgsb": "l-bfgs-b", "tnc": "tnc"}.get(name.split(":")[0], "slsqp")
    flags = name.split(":")[1:]
    method_string = ("external/" if external else "") + ("scipy/" if "3part" in flags else "") + method
    config: dict[str, Any] = {
        "variables": {"initial_values": [0.5, -0.25, 1.0]},
        "realizations": {"weights": [1.0, 2.0]},
        "gradient": {"number_of_perturbations": 2, "perturbation_magnitudes": 0.05, "seed": 3},
        "optimizer": {"method": method_string, "options": {"maxiter": 2}},
    }
    if "rms0" in flags:
        config["realizations"]["realization_min_success"] = 0
        config["optimizer"]["max_functions"] = 6
    if method == "nelder-mead":
        config["optimizer"]["options"] = {"maxiter": 4}
    if method == "differential_evolution":
        config["optimizer"]["options"] = {"maxiter": 1, "popsize": 2, "seed": 11}
        config["variables"]["lower_bounds"] = [-2.0] * 3
        config["variables"]["upper_bounds"] = [2.0] * 3
    if "constraints" in name:
        config["variables"]["lower_bounds"] = [-2.0, -2.0, -2.0]
        config["variables"]["upper_bounds"] = [2.0, 2.0, 3.0]
        config["linear_constraints"] = {"coefficients": [[1.0, 1.0, 0.0]], "lower_bounds": [-1.0], "upper_bounds": [4.0]}
        config["nonlinear_constraints"] = {"lower_bounds": [-50.0], "upper_bounds": [50.0]}
    if method in ("cobyla", "powell"):
        config["optimizer"]["options"] = {"maxiter": 6}
    if "bounds" in flags:
        config["variables"]["lower_bounds"] = [-2.0, -2.0, -2.0]
        config["variables"]["upper_bounds"] = [2.0, 2.0, 3.0]
    if "lin" in flags:
        config["linear_constraints"] = {"coefficients": [[1.0, 1.0, 0.0], [0.0, 1.0, -1.0]], "lower_bounds": [-1.0, -3.0], "upper_bounds": [4.0, 3.0]}
    if "twocon" in name:
        # two non-linear constraints: together with a mask the gradient matrix handed to the back-end used to be
        # Fortran-ordered in-process only (fixed by c3ced68)
        config["nonlinear_constraints"] = {"lower_bounds": [-50.0, -60.0], "upper_bounds": [50.0, 60.0]}
        if method != "differential_evolution":
            config["optimizer"]["options"] = {"maxiter": 4}
    if "mask" in name:
        config["variables"]["mask"] = [True, False, True]
    if "maxfun" in name:
        config["optimizer"]["max_functions"] = 2
    if "relative" in name:
        config["variables"]["lower_bounds"] = [-2.0] * 3
        config["variables"]["upper_bounds"] = [2.0] * 3
        config["gradient"]["perturbation_types"] = 2
        config["gradient"]["perturbation_magnitudes"] = 0.01
    return config


def worker(case: dict[str, Any]) -> dict[str, Any]:
    """Runs inside its own process: one complete (in-process or external) optimization."""
    from ropt.enums import EventType, OptimizerExitCode
    from ropt.evaluator import EvaluatorResult
    from ropt.exceptions import OptimizationAborted
    from ropt.plan import OptimizerContext, Plan
    from ropt.plugins.optimizer import external as ext

    if "+" in case["config"]:
        # several optimizations one after the other in the SAME process; the traces are concatenated
        merged: dict[str, Any] = {"code": [], "exception": [], "trace": [], "evaluations": 0, "alive": [], "wall": 0.0, "runner_pids": 0}
        for part in case["config"].split("+"):
            sub = worker({**case, "config": part})
            merged["code"].append(sub["code"])
            merged["exception"].append(sub["exception"])
            merged["trace"] += [["run", part]] + sub["trace"]
            merged["evaluations"] += sub["evaluations"]
            merged["alive"] += sub["alive"]
            merged["wall"] += sub["wall"]
            merged["runner_pids"] = max(merged["runner_pids"], sub.get("runner_pids", 0))
        merged["code"] = "+".join(str(c) for c in merged["code"])
        merged["exception"] = None if not any(merged["exception"]) else "+".join(str(e) for e in merged["exception"])
        return merged
    name = case["config"]
    external = case["external"]
    config = worker_config(name, external)
    nan_at = next((int(f[3:]) for f in name.split(":")[1:] if f.startswith("nan")), None)
    n_con = len(config["nonlinear_constraints"]["lower_bounds"]) if "nonlinear_constraints" in config else 0
    trace: list[Any] = []
    state = {"evals": 0}
    fault = case.get("fault") or {}

    def evaluator(variables: np.ndarray, context: Any) -> Any:
        k = state["evals"]
        state["evals"] += 1
        if fault.get("side") == "evaluator" and fault.get("at") == k:
            if fault["kind"] == "raise":
                raise ValueError("injected evaluator failure")
            if fault["kind"] == "abort":
                raise OptimizationAborted(exit_code=OptimizerExitCode.USER_ABORT)
        n_rows = variables.shape[0]
        objectives = np.zeros((n_rows, 1))
        constraints = np.zeros((n_rows, n_con)) if n_con else None
        for i in range(n_rows):
            x = np.asarray(variables[i], dtype=np.float64)
            r = int(context.realizations[i])
            objectives[i, 0] = float((x - np.array([0.25, 0.5, -0.5])) @ (x - np.array([0.25, 0.5, -0.5]))) * (1 + 0.5 * r) + 0.125 * r
            if constraints is not None:
                constraints[i, 0] = float(x[0] + 2 * x[2]) + r
                if n_con > 1:
                    constraints[i, 1] = float(x[0] * x[2]) - 0.5 * r
        if (fault.get("side") == "evaluator" and fault.get("kind") == "nan" and fault.get("at") == k) or nan_at == k:
            objectives[:, 0] = np.nan
        trace.append(["call", variables.tobytes().hex(), context.realizations.tobytes().hex(),
                      None if context.perturbations is None else context.perturbations.tobytes().hex(), objectives.tobytes().hex()])
        return EvaluatorResult(objectives=objectives, constraints=constraints)

    # parent-side pending polls
    if fault.get("side") == "parent" and external:
        counter = {"read": 0, "write": 0}
        orig_read, orig_write = ext._JSONPipeCommunicator.read, ext._JSONPipeCommunicator.write

        def read(self: Any) -> Any:
            k = counter["read"]
            counter["read"] += 1
            if fault["kind"] == "pending-read" and fault["at"] == k:
                return None
            return orig_read(self)

        def write(self: Any, data: Any) -> Any:
            k = counter["write"]
            counter["write"] += 1
            if fault["kind"] == "pending-write" and fault["at"] == k:
                return False
            return orig_write(self, data)

        ext._JSONPipeCommunicator.read, ext._JSONPipeCommunicator.write = read, write

    def on_finished(event: Any) -> None:
        for res in event.data["results"]:
            item = [type(res).__name__]
            for fname in ("evaluations", "realizations", "functions", "gradients"):
                field = getattr(res, fname, None)
                if field is None:
                    item.append([fname, None])
                    continue
                for aname in getattr(field, "__dataclass_fields__", {}):
                    value = getattr(field, aname)
                    if isinstance(value, np.ndarray):
                        item.append([f"{fname}.{aname}", value.tobytes().hex()])
            trace.append(["result", item])

    context = OptimizerContext(evaluator=evaluator)
    context.add_observer(EventType.FINISHED_EVALUATION, on_finished)
    plan = Plan(context)
    step = plan.add_step("optimizer")
    out: dict[str, Any] = {"code": None, "exception": None}
    start = time.time()
    try:
        if "start" in name.split(":")[1:]:
            # a start point that differs from the configured initial values
            out["code"] = plan.run_step(step, config=config, variables=np.array([0.3, -0.1, 0.7])).name
        else:
            out["code"] = plan.run_step(step, config=config).name
    except BaseException as exc:  # noqa: BLE001
        out["exception"] = f"{type(exc).__name__}: {str(exc)[:200]}"
    out["wall"] = round(time.time() - start, 2)
    out["trace"] = trace
    out["evaluations"] = state["evals"]
    # orphan check: runner processes record their pid in VERIF_C20_PIDDIR
    alive = []
    piddir = os.environ.get("VERIF_C20_PIDDIR")
    if piddir:
        deadline = time.time() + 3.0
        while True:
            alive = []
            for entry in Path(piddir).glob("*.pid"):
                pid = int(entry.stem)
                try:
                    stat = Path(f"/proc/{pid}/stat").read_text()
                    if stat.rsplit(")", 1)[1].split()[0] != "Z":
                        alive.append(pid)
                except (FileNotFoundError, ProcessLookupError):
                    pass
            if not alive or time.time() > deadline:
                break
            time.sleep(0.2)
        out["runner_pids"] = len(list(Path(piddir).glob("*.pid")))
        out["fault_fired"] = len(list(Path(piddir).glob("*.fired")))
        out["requests"] = max([int(entry.read_text() or 0) for entry in Path(piddir).glob("*.requests")], default=0)
    out["alive"] = alive
    return out


# ---------------------------------------------------------------------------- driver side


def execute(case: dict[str, Any]) -> dict[str, Any]:
    """Run one execution in its own process under the horizon."""
    piddir = tempfile.mkdtemp(prefix="c20pids.")
    env = dict(os.environ)
    env["VERIF_C20_PIDDIR"] = piddir
    fault = case.get("fault") or {}
    env["VERIF_C20_FAULT"] = json.dumps(fault) if fault.get("side") == "child" else ""
    env["PATH"] = str(core.VERIF / "bin") + ":" + env.get("PATH", "")
    try:
        proc = subprocess.run([sys.executable, "-m", "checks.c20", "--worker", json.dumps(case)], env=env, capture_output=True,
                              text=True, timeout=HORIZON, cwd=str(core.VERIF), stdin=subprocess.DEVNULL)
    except subprocess.TimeoutExpired:
        _kill_runners(piddir)
        return {"hang": True}
    finally:
        pass
    lines = [line for line in proc.stdout.splitlines() if line.startswith("RESULT ")]
    _kill_runners(piddir)
    if not lines:
        return {"worker_failed": True, "stderr": proc.stderr[-1500:], "stdout": proc.stdout[-500:]}
    return json.loads(lines[-1][7:])


def _kill_runners(piddir: str) -> None:
    import shutil
    import signal

    for entry in Path(piddir).glob("*.pid"):
        try:
            os.kill(int(entry.stem), signal.SIGKILL)
        except (ProcessLookupError, PermissionError):
            pass
    shutil.rmtree(piddir, ignore_errors=True)


_BASE: dict[str, Any] = {}


def judge(case: dict[str, Any]) -> Judgement:
    j = Judgement()
    kind = case["kind"]
    run = execute(case)
    j.transitions = run.get("evaluations", 0) + 1
    label = f"{kind}:{case['config']}"
    fault = case.get("fault") or {}
    if run.get("hang"):
        j.fail(f"hang:{kind}:{fault.get('kind')}", case=case)
        j.outcome = "hang"
        return j
    if run.get("worker_failed"):
        j.fail("worker-process-failed", stderr=run.get("stderr"), case=case)
        return j
    if run["alive"]:
        j.fail(f"runner-process-left-running:{kind}:{fault.get('kind')}", alive=len(run["alive"]), case=case)
    if kind == "equal":
        reference = execute({**case, "external": False})
        if reference.get("hang") or reference.get("worker_failed"):
            j.fail("in-process-reference-failed", case=case)
            return j
        j.outcome = f"equal:{case['config']}:{run['code']}:{run['exception'] and run['exception'].split(':')[0]}"
        # An error inside the optimizer is reported by the external plug-in as its own error type (documented), so only
        # "ended with an error" is compared, not the exception text.
        if (run["exception"] is None) != (reference["exception"] is None):
            j.fail("exception-differs-from-in-process-run", external=run["exception"], in_process=reference["exception"], case=case)
        if run["code"] != reference["code"]:
            j.fail("exit-code-differs-from-in-process-run", external=run["code"], in_process=reference["code"], case=case)
        if run["trace"] != reference["trace"]:
            where = next((k for k, (a, b) in enumerate(zip(run["trace"], reference["trace"])) if a != b), min(len(run["trace"]), len(reference["trace"])))
            j.fail("trace-differs-from-in-process-run", first_difference=where, external_len=len(run["trace"]), in_process_len=len(reference["trace"]),
                   kind_of_entry=(run["trace"] + [["end"]])[where][0], case=case)
        if case["external"] and run.get("runner_pids", 0) < 1:
            j.fail("external-run-did-not-start-a-runner", case=case)
        return j
    if kind == "crash":
        if not run.get("fault_fired"):
            # the run ended before the child issued request number `at`: nothing was injected, nothing to judge
            j.trivial = True
            j.outcome = "crash:not-reached"
            return j
        j.outcome = f"crash:{fault['kind']}:{'error' if run['exception'] else run['code']}"
        if run["exception"] is None and run["code"] == "OPTIMIZER_STEP_FINISHED":
            j.fail(f"optimizer-process-death-reported-as-success:{fault['kind']}", at=fault["at"], case=case)
        return j
    if kind == "evaluator-raise":
        j.outcome = f"evaluator-raise:{'propagated' if run['exception'] else run['code']}"
        if run["exception"] is None or not run["exception"].startswith("ValueError"):
            j.fail("evaluator-exception-not-propagated", observed=run["exception"], code=run["code"], case=case)
        return j
    if kind == "pending":
        base_key = case["config"]
        if base_key not in _BASE:
            _BASE[base_key] = execute({"kind": "equal", "config": case["config"], "external": True})
        reference = _BASE[base_key]
        j.outcome = f"pending:{fault['side']}:{fault['kind']}"
        if run["exception"] != reference.get("exception") or run["code"] != reference.get("code") or run["trace"] != reference.get("trace"):
            j.fail(f"pending-poll-changes-the-run:{fault['side']}:{fault['kind']}", at=fault["at"], code=run["code"], exception=run["exception"], case=case)
        return j
    raise ValueError(kind)


EQUAL_CONFIGS = ["slsqp", "slsqp:constraints", "slsqp:mask", "slsqp:twocon:mask", "slsqp:maxfun", "slsqp:relative", "slsqp:start",
                 "nelder-mead", "de"]


def message_count(config: str) -> int:
    """Requests issued by the child in the fault-free run, as counted by the shim (config, initial_values, one per evaluation)."""
    run = execute({"kind": "equal", "config": config, "external": True})
    return run.get("requests") or 2 + run.get("evaluations", 0)


def shards(tier: str, seed: int) -> list[dict[str, Any]]:
    quick = tier == "quick"
    out: list[dict[str, Any]] = []
    equal = ["slsqp", "slsqp:constraints", "de", "slsqp:relative", "slsqp:start", "slsqp:twocon:mask"] if quick else EQUAL_CONFIGS
    for name in equal:
        out.append({"kind": "equal", "config": name, "external": True})
    # two optimizations in one process: what the first one leaves behind must not change the second
    out.append({"kind": "equal", "config": "de:3part+slsqp:3part:rms0:nan1", "external": True})
    if not quick:
        out.append({"kind": "equal", "config": "slsqp:3part:rms0:nan1+de:3part", "external": True})
        out.append({"kind": "equal", "config": "slsqp+slsqp:constraints", "external": True})
    # grid: every supported method x mask x constraint set the method accepts
    grid = []
    for m in ("slsqp", "cobyla", "de"):
        for cons in ("", ":lin", ":twocon", ":twocon:lin"):
            for mask in ("", ":mask"):
                grid.append(m + cons + mask)
    for m in ("nelder-mead", "powell", "cg", "bfgs", "newton-cg", "lbfgsb", "tnc"):
        for mask in ("", ":mask"):
            grid.append(m + mask)
    for m in ("nelder-mead", "powell", "lbfgsb", "tnc"):
        grid.append(m + ":bounds:mask")
    for name in (["cobyla:twocon:mask", "bfgs:mask", "lbfgsb:bounds:mask"] if quick else grid):
        if name not in equal:
            out.append({"kind": "equal", "config": name, "external": True})
    for name, k in (("slsqp", 1), ("slsqp", 0)) if quick else (("slsqp", 0), ("slsqp", 1), ("slsqp:constraints", 2), ("de", 3)):
        out.append({"kind": "equal", "config": name, "external": True, "fault": {"side": "evaluator", "kind": "nan", "at": k}})
        out.append({"kind": "equal", "config": name, "external": True, "fault": {"side": "evaluator", "kind": "abort", "at": k}})
    crash_configs = ["slsqp"] if quick else ["slsqp", "slsqp:constraints"]
    for name in crash_configs:
        m_total = message_count(name)
        kinds = (["kill-before", "exit3-after", "term-after", "raise"] if quick else
                 ["kill-before", "kill-after", "exit3-before", "exit3-after", "term-before", "term-after", "raise"])
        for m in range(m_total):
            for fk in kinds:
                if fk == "raise" and m < 2:
                    continue
                out.append({"kind": "crash", "config": name, "external": True, "fault": {"side": "child", "kind": fk, "at": m}})
        for k in range(m_total - 2):
            out.append({"kind": "evaluator-raise", "config": name, "external": True, "fault": {"side": "evaluator", "kind": "raise", "at": k}})
        for side in ("child", "parent"):
            for fk in ("pending-read", "pending-write"):
                indices = range(0, m_total + 2)
                for at in (indices if not quick else list(indices)[:: 2 if side == "child" else 3]):
                    out.append({"kind": "pending", "config": name, "external": True, "fault": {"side": side, "kind": fk, "at": at}})
    return out


def run_shard(shard: dict[str, Any]) -> core.ShardResult:
    rec = Recorder(shard)
    j = judge(shard)
    rec.add(json.dumps(shard, sort_keys=True), shard, j)
    return rec.finish()


def run_case(case: dict[str, Any]) -> Judgement:
    return judge(case)


if __name__ == "__main__":
    if len(sys.argv) >= 3 and sys.argv[1] == "--worker":
        core.quiet_numpy()
        result = worker(json.loads(sys.argv[2]))
        print("RESULT " + json.dumps(result))
        sys.exit(0)
    sys.exit(core.main(sys.modules[__name__]))
