"""C04 - CVaR filter weights realize the tail expectation over the worst fraction.

Exhaustive enumeration (E1) directly on DefaultRealizationFilter.get_realization_weights
(built from a real validated EnOptConfig), plus an end-to-end layer through
EnsembleEvaluator.calculate.
"""

from __future__ import annotations

import itertools
import math
import sys
from fractions import Fraction
from typing import Any

import numpy as np

from mc import core
from mc.core import Judgement, Recorder
from mc.harness import TableEvaluator, close, exception_name, make_manager, validate

PROPERTY = "C04"
RULE = (
    "E1 product enumeration: flavour (objective 1/2 keys incl. negative objective weights, constraint upper/lower/equality/two-sided) x "
    "n x ALL n! orderings of distinct dyadic ranking values x ALL 2^n failure masks x percentile grid "
    "(k/m for all m<=n incl. both ulp neighbours, j/20, 0.35, 0.01, 0.999, 1.0). Each case calls the real "
    "filter. Reference: exact rational tail weights from Fraction(p). A case is trivial when the statement "
    "does not define 'worst' (two-sided constraint bounds); distinct = distinct (flavour,n,perm,mask,p)."
)
ASSUMPTIONS = [
    "ranking values are distinct (ties are outside the statement)",
    "weights compared with 1e-12 absolute tolerance; sign/zero structure compared exactly, except that the "
    "first rank outside the exact tail may carry |w|<=1e-12 of rounding residue but never a negative weight",
    "n<=7 (thorough) / n<=5 (quick); nothing is sampled beyond",
]
BOUNDS = {
    "quick": "n<=5 all perms x all masks x grid; end-to-end n<=3",
    "thorough": "n<=6 all flavours, n=7 for three flavours: all perms x all masks x grid; end-to-end n<=5",
}

FLAVOURS = ["obj1", "obj2", "obj2_single", "obj2_neg", "obj2_negsum", "con_upper", "con_lower", "con_eq", "con_two_sided"]
TOL = 1e-12


def percentile_grid(n: int) -> list[float]:
    grid: set[float] = set()
    for m in range(1, n + 1):
        for k in range(1, m + 1):
            p = k / m
            for q in (p, math.nextafter(p, 0.0), math.nextafter(p, 2.0)):
                if 0.0 < q <= 1.0:
                    grid.add(q)
    for j in range(1, 21):
        grid.add(j / 20)
    grid.update([0.35, 0.01, 0.999, 1.0])
    return sorted(grid)


def value_table(n: int, seed: int) -> np.ndarray:
    """Distinct dyadic 'badness keys', ascending: key[k] is the k-th smallest."""
    scale = [0.5, 0.125, 2.0, 1.0][seed % 4]
    shift = [0.25, -3.0, 1.5, 0.0][(seed // 4) % 4]
    return (np.arange(n, dtype=np.float64) - (n - 1) / 2) * scale + shift + 0.25 * scale


def build_config(flavour: str, n: int, p: float) -> dict[str, Any]:
    config: dict[str, Any] = {
        "variables": {"initial_values": [0.0]},
        "realizations": {"weights": [1.0] * n, "realization_min_success": 0},
    }
    if flavour.startswith("obj"):
        sort = {"obj1": [0], "obj2": [0, 1], "obj2_single": [1], "obj2_neg": [1], "obj2_negsum": [0, 1]}[flavour]
        config["objectives"] = {
            "weights": [1.0] if flavour == "obj1" else ([2.0, -1.0] if "neg" in flavour else [0.25, 0.75]),
            "realization_filters": [0] if flavour == "obj1" else [0, 0],
        }
        config["realization_filters"] = [{"method": "cvar-objective", "options": {"sort": sort, "percentile": p}}]
    else:
        lower, upper = {
            "con_upper": (-np.inf, 1.0),
            "con_lower": (0.5, np.inf),
            "con_eq": (1.0, 1.0),
            "con_two_sided": (-1.0, 1.0),
        }[flavour]
        config["nonlinear_constraints"] = {
            "lower_bounds": [lower],
            "upper_bounds": [upper],
            "realization_filters": [0],
        }
        config["realization_filters"] = [{"method": "cvar-constraint", "options": {"sort": 0, "percentile": p}}]
    return config


def make_filter(flavour: str, n: int, p: float) -> Any:
    config = validate(build_config(flavour, n, p))
    manager, _ = make_manager()
    return manager.get_plugin("realization_filter", method=config.realization_filters[0].method).create(config, 0)


def make_inputs(flavour: str, badness: np.ndarray, failed: np.ndarray) -> tuple[np.ndarray, np.ndarray | None]:
    """Evaluator-style arrays whose ranking makes `badness` the 'worstness' (larger = worse)."""
    n = badness.size
    idx = np.arange(n, dtype=np.float64)
    if flavour == "obj1":
        objectives = badness[:, None].copy()
        constraints = None
    elif flavour == "obj2":
        # weights normalise to (.25,.75): .25*(s-3c) + .75*(s+c) = s
        c = 0.5 * idx - 1.0
        objectives = np.stack([badness - 3 * c, badness + c], axis=1)
        constraints = None
    elif flavour == "obj2_single":
        objectives = np.stack([-(idx * 0.5), badness], axis=1)
        constraints = None
    elif flavour == "obj2_neg":
        # weights (2,-1), key = objective 1 only: weighted value -1 * (-badness) = badness
        objectives = np.stack([idx * 0.5, -badness], axis=1)
        constraints = None
    elif flavour == "obj2_negsum":
        # weights (2,-1): 2*(badness+c)/2 - c = badness
        c = 0.5 * idx - 1.0
        objectives = np.stack([(badness + c) / 2.0, c], axis=1)
        constraints = None
    else:
        objectives = (idx * 0.25)[:, None].copy()
        if flavour == "con_upper":
            values = badness  # largest is worst
        elif flavour == "con_lower":
            values = -badness  # smallest is worst
        elif flavour == "con_eq":
            # farthest from the target 1.0 is worst; make |v-1| increasing in badness, alternate sides
            order = np.argsort(np.argsort(badness))  # rank by badness, 0 = least bad
            dist = (order + 1) * 0.25
            sign = np.where(order % 2 == 0, 1.0, -1.0)
            values = 1.0 + sign * dist
        else:
            values = badness
        constraints = values[:, None].copy()
    objectives[failed, :] = np.nan
    if constraints is not None:
        constraints[failed, :] = np.nan
    return objectives, constraints


def tail_info(p: float, m: int) -> tuple[np.ndarray, int, int, bool]:
    """Exact-rational reference weights by worst-rank for m successes, and the first rank that must be exactly 0."""
    pe = Fraction(p)
    k = (pe * m).__floor__()
    residue = pe - Fraction(k, m)
    weights = np.zeros(m, dtype=np.float64)
    weights[:k] = 1.0 / m
    if k < m:
        weights[k] = float(residue)
    first_outside = -(-(pe * m).numerator // (pe * m).denominator)  # ceil
    return weights, first_outside + 1, k, residue > 0


def judge(flt: Any, flavour: str, badness: np.ndarray, failed: np.ndarray, p: float, info: Any = None) -> Judgement:
    from ropt.enums import OptimizerExitCode
    from ropt.exceptions import OptimizationAborted

    j = Judgement()
    n = badness.size
    success = np.flatnonzero(~failed)
    m = success.size
    objectives, constraints = make_inputs(flavour, badness, failed)
    before = (objectives.tobytes(), None if constraints is None else constraints.tobytes())
    try:
        weights = flt.get_realization_weights(objectives, constraints)
        raised = None
    except Exception as exc:  # noqa: BLE001
        weights = None
        raised = exc
    if (objectives.tobytes(), None if constraints is None else constraints.tobytes()) != before:
        # the per-realization values are shared with the other filters of the evaluation and with the results
        j.fail(f"filter-modified-its-input:{'constraint' if not flavour.startswith('obj') else 'objective'}", flavour=flavour)
    if flavour == "con_two_sided":
        j.trivial = True
        j.outcome = "two-sided:unspecified"
        return j
    if m == 0:
        j.outcome = "no-success"
        if not (isinstance(raised, OptimizationAborted) and raised.exit_code == OptimizerExitCode.TOO_FEW_REALIZATIONS):
            j.fail(
                "no-success-not-TOO_FEW:" + (exception_name(raised) if raised is not None else "returned-weights"),
                flavour=flavour,
                observed=None if weights is None else weights,
            )
        return j
    if raised is not None:
        j.outcome = "raised"
        j.fail("unexpected-exception:" + exception_name(raised), flavour=flavour)
        return j
    ref_by_rank, zero_from, k, has_residue = info if info is not None else tail_info(p, m)
    order = success[np.argsort(-badness[success], kind="stable")]  # worst first
    expected = np.zeros(n, dtype=np.float64)
    expected[order] = ref_by_rank
    j.outcome = f"m={m}/k={k}/residue={'+' if has_residue else '0'}"
    weights = np.asarray(weights, dtype=np.float64)
    if weights.shape != (n,):
        j.fail("bad-shape", shape=weights.shape)
        return j
    if np.any(np.abs(weights - expected) > TOL) and np.allclose(np.sort(weights), np.sort(expected), atol=TOL, rtol=0):
        # right multiset of weights on the wrong realizations: a ranking-direction defect
        j.fail(f"wrong-ranking:{flavour}", observed=weights, expected=expected, p=repr(p))
        return j
    if np.any(weights < 0):
        j.fail("negative-weight", flavour=flavour, observed=weights, expected=expected, p=repr(p))
    must_zero = np.ones(n, dtype=bool)
    must_zero[order[: zero_from]] = False
    if np.any(weights[must_zero] != 0.0):
        j.fail("nonzero-outside-tail", flavour=flavour, observed=weights, expected=expected, p=repr(p))
    if np.any(np.abs(weights - expected) > TOL):
        j.fail(f"weight-mismatch:{flavour}", observed=weights, expected=expected, p=repr(p))
    if abs(float(weights.sum()) - p) > TOL:
        j.fail("sum-not-p", observed=weights, p=repr(p))
    return j


# ------------------------------------------------------------------ end-to-end


def with_spare_filter(config: dict[str, Any]) -> dict[str, Any]:
    """The same configuration with an unused filter listed BEFORE the cvar filter (filter indices shift by one)."""
    import copy

    cfg = copy.deepcopy(config)
    spare = {"method": "sort-objective", "options": {"sort": [0], "first": 0, "last": 0}}
    cfg["realization_filters"] = [spare, *cfg["realization_filters"]]
    for key in ("objectives", "nonlinear_constraints"):
        if key in cfg and "realization_filters" in cfg[key]:
            cfg[key]["realization_filters"] = [i + 1 if i >= 0 else i for i in cfg[key]["realization_filters"]]
    return cfg


def e2e_judge(flavour: str, badness: np.ndarray, failed: np.ndarray, p: float, spare: bool = False) -> Judgement:
    """Reported value of the ranked function == CVaR_p tail mean of its empirical distribution."""
    from ropt.ensemble_evaluator import EnsembleEvaluator

    j = Judgement()
    n = badness.size
    m = int(np.count_nonzero(~failed))
    if m == 0 or flavour == "con_two_sided":
        j.trivial = True
        j.outcome = "e2e-skip"
        return j
    objectives, constraints = make_inputs(flavour, badness, failed)
    n_obj = objectives.shape[1]
    n_con = 0 if constraints is None else constraints.shape[1]
    table = np.hstack([objectives] + ([constraints] if constraints is not None else []))

    def fn(x: np.ndarray, r: int) -> np.ndarray:
        return table[r]

    config = validate(with_spare_filter(build_config(flavour, n, p)) if spare else build_config(flavour, n, p))
    manager, _ = make_manager()
    evaluator = TableEvaluator(fn, n_obj, n_con)
    ens = EnsembleEvaluator(config, None, evaluator, manager)
    try:
        (result,) = ens.calculate(np.array([0.0]), compute_functions=True, compute_gradients=False)
    except Exception as exc:  # noqa: BLE001
        j.outcome = "e2e-raised"
        j.fail("e2e-unexpected-exception:" + exception_name(exc), flavour=flavour)
        return j
    ref_by_rank = tail_info(p, m)[0]
    success = np.flatnonzero(~failed)
    order = success[np.argsort(-badness[success], kind="stable")]
    w = np.zeros(n)
    w[order] = ref_by_rank
    pe = float(Fraction(p))
    j.outcome = f"e2e:m={m}"

    def check(result: Any, tag: str) -> None:
        if result.functions is None:
            j.fail(f"e2e-no-functions{tag}", flavour=flavour)
            return
        if flavour.startswith("obj"):
            cols = [0] if flavour == "obj1" else [0, 1]
            for col in cols:
                vals = np.where(failed, 0.0, table[:, col])
                expected = float((w * vals).sum() / pe)
                if not close(result.functions.objectives[col], expected, 1e-9):
                    j.fail(f"e2e-tail-mean{tag}:{flavour}", column=col, observed=result.functions.objectives[col], expected=expected, p=repr(p))
            got_w = result.realizations.objective_weights
            if got_w is None or not np.allclose(got_w[0], w, atol=TOL, rtol=0):
                j.fail(f"e2e-reported-weights{tag}:{flavour}", observed=got_w, expected=w)
        else:
            vals = np.where(failed, 0.0, table[:, n_obj])
            expected = float((w * vals).sum() / pe)
            if not close(result.functions.constraints[0], expected, 1e-9):
                j.fail(f"e2e-tail-mean{tag}:{flavour}", observed=result.functions.constraints[0], expected=expected, p=repr(p))

    check(result, "")
    # The same point through the combined function+gradient evaluation, with every perturbation of the WORST successful
    # realization failing: that realization fails for the gradient only, the function value is still the tail mean.
    from ropt.exceptions import OptimizationAborted
    from ropt.results import FunctionResults

    worst = int(order[0])
    evaluator2 = TableEvaluator(fn, n_obj, n_con, fail=lambda call, row, r, pert: [0] if (pert >= 0 and r == worst) else None)
    try:
        both = EnsembleEvaluator(config, None, evaluator2, manager).calculate(np.array([0.0]), compute_functions=True, compute_gradients=True)
    except OptimizationAborted:
        both = ()  # the gradient side may legitimately end the evaluation; not judged here
    except Exception as exc:  # noqa: BLE001
        j.fail("e2e-unexpected-exception:combined:" + exception_name(exc), flavour=flavour)
        both = ()
    for item in both:
        if isinstance(item, FunctionResults):
            check(item, ":combined-with-perturbation-failures")
    return j


def e2e_two_filters(n: int, perm: Any, failed: np.ndarray, p: float, seed: int) -> Judgement:
    """Two constraints, each ranked by its OWN cvar-constraint filter (upper- and lower-bounded), same evaluation."""
    from ropt.ensemble_evaluator import EnsembleEvaluator

    j = Judgement()
    m = int(np.count_nonzero(~failed))
    if m == 0:
        j.trivial = True
        j.outcome = "e2e2-skip"
        return j
    table = value_table(n, seed)
    b0 = table[list(perm)]
    b1 = table[list(perm)][::-1].copy()
    cons = np.stack([b0, -b1], axis=1)  # constraint 0: largest is worst; constraint 1 (lower-bounded): smallest is worst
    objs = (np.arange(n) * 0.25)[:, None]

    def fn(x: np.ndarray, r: int) -> np.ndarray:
        row = np.concatenate([objs[r], cons[r]])
        return np.where(failed[r], np.nan, row)

    config = validate({
        "variables": {"initial_values": [0.0]},
        "realizations": {"weights": [1.0] * n, "realization_min_success": 0},
        "nonlinear_constraints": {"lower_bounds": [-np.inf, 0.5], "upper_bounds": [1.0, np.inf], "realization_filters": [0, 1]},
        "realization_filters": [{"method": "cvar-constraint", "options": {"sort": 0, "percentile": p}},
                                {"method": "cvar-constraint", "options": {"sort": 1, "percentile": p}}],
    })
    manager, _ = make_manager()
    ens = EnsembleEvaluator(config, None, TableEvaluator(fn, 1, 2), manager)
    try:
        (result,) = ens.calculate(np.array([0.0]), compute_functions=True, compute_gradients=False)
    except Exception as exc:  # noqa: BLE001
        j.fail("e2e2-unexpected-exception:" + exception_name(exc))
        return j
    ref_by_rank = tail_info(p, m)[0]
    success = np.flatnonzero(~failed)
    pe = float(Fraction(p))
    j.outcome = f"e2e2:m={m}"
    if result.functions is None:
        j.fail("e2e2-no-functions")
        return j
    for k, badness in enumerate((b0, b1)):
        order = success[np.argsort(-badness[success], kind="stable")]
        w = np.zeros(n)
        w[order] = ref_by_rank
        got_w = result.realizations.constraint_weights
        if got_w is None or not np.allclose(np.asarray(got_w)[k], w, atol=TOL, rtol=0):
            j.fail("e2e2-second-filter-weights" if k else "e2e2-first-filter-weights", observed=None if got_w is None else np.asarray(got_w)[k], expected=w)
        expected = float((w * np.where(failed, 0.0, cons[:, k])).sum() / pe)
        if not close(result.functions.constraints[k], expected, 1e-9):
            j.fail("e2e2-tail-mean", constraint=k, observed=result.functions.constraints[k], expected=expected)
    return j


# ------------------------------------------------------------------ enumeration


def shards(tier: str, seed: int) -> list[dict[str, Any]]:
    nmax = 5 if tier == "quick" else 7
    e2e_max = 3 if tier == "quick" else 5
    out: list[dict[str, Any]] = []
    for n in range(1, nmax + 1):
        flavours = [f for f in FLAVOURS if not (f == "con_two_sided" and n > 3)]
        if n == 7:
            flavours = ["obj1", "con_lower", "con_eq"]  # n=7 (5040 orderings x 128 masks x grid): one flavour per ranking rule
        masks = list(range(2**n))
        chunk = max(1, len(masks) // (1 if n < 4 else 8 if n < 5 else 32 if n < 7 else 128))
        for group in core.chunked(masks, chunk):
            # all flavours of one (n, masks) group run in ONE process: their filters share method names and options
            out.append({"kind": "direct", "flavours": flavours, "n": n, "masks": group, "seed": seed})
    for n in range(1, e2e_max + 1):
        for flavour in FLAVOURS[:-1]:
            out.append({"kind": "e2e", "flavour": flavour, "n": n, "seed": seed})
    # beyond the enumerated sizes and magnitudes: ONE ensemble of n = 20 (three fixed orderings, no / each single / two
    # double failures, four percentiles), and n <= 4 with ranking values of magnitude 2^55 (adding 1 changes nothing there)
    out.append({"kind": "large", "n": 20, "seed": seed})
    out.append({"kind": "huge", "n": 4, "seed": seed})
    return out


LARGE_PERMS = [list(range(20)), list(range(19, -1, -1)), [(7 * i + 3) % 20 for i in range(20)]]


def extra_cases(kind: str, seed: int) -> list[dict[str, Any]]:
    out = []
    if kind == "large":
        masks = [0] + [1 << i for i in range(20)] + [(1 << 0) | (1 << 19), (1 << 7) | (1 << 8)]
        for flavour in ("obj1", "con_upper", "con_lower", "con_eq"):
            for perm in LARGE_PERMS:
                for mask in masks:
                    for p in (0.25, 0.35, 0.5, 1.0):
                        failed = np.array([(mask >> i) & 1 == 1 for i in range(20)])
                        out.append(case_of("direct", flavour, 20, perm, failed, p, seed))
    else:
        for n in (2, 3, 4):
            for flavour in ("obj1", "con_upper", "con_lower"):
                for perm in itertools.permutations(range(n)):
                    for mask in range(2**n):
                        for p in (0.5, 0.75, 1.0, (n - 1) / n + 0.01):
                            failed = np.array([(mask >> i) & 1 == 1 for i in range(n)])
                            out.append({**case_of("direct", flavour, n, perm, failed, p, seed), "scale": 2.0**55})
    return out


def run_shard(shard: dict[str, Any]) -> core.ShardResult:
    rec = Recorder(shard)
    if shard["kind"] in ("large", "huge"):
        for case in extra_cases(shard["kind"], shard["seed"]):
            rec.add((shard["kind"], case["flavour"], case["n"], tuple(case["perm"]), tuple(case["failed"]), case["percentile_hex"]), case, run_case(case))
        return rec.finish()
    n, seed = shard["n"], shard["seed"]
    flavour = shard.get("flavour")
    table = value_table(n, seed)
    perms = list(itertools.permutations(range(n)))
    if shard["kind"] == "e2e":
        grid = sorted({0.01, 0.35, 0.5, 1.0} | {k / n for k in range(1, n + 1)} | {math.nextafter(k / n, 0.0) for k in range(1, n + 1)})
        for mask in range(2**n):
            failed = np.array([(mask >> i) & 1 == 1 for i in range(n)])
            for perm in perms:
                badness = table[list(perm)]
                for p in grid:
                    j = e2e_judge(flavour, badness, failed, p)
                    rec.add(("e2e", flavour, n, mask, perm, p), lambda: case_of("e2e", flavour, n, perm, failed, p, seed), j)
                    if p in (0.35, 1.0):
                        j = e2e_judge(flavour, badness, failed, p, spare=True)
                        rec.add(("e2e-spare", flavour, n, mask, perm, p), lambda: case_of("e2e-spare", flavour, n, perm, failed, p, seed), j)
                    if flavour == "con_upper" and p in (0.35, 0.5, 1.0):
                        j = e2e_two_filters(n, perm, failed, p, seed)
                        rec.add(("e2e2", n, mask, perm, p), lambda: case_of("e2e2", "con_upper", n, perm, failed, p, seed), j)
        return rec.finish()
    grid = percentile_grid(n)
    filters = {(flv, p): make_filter(flv, n, p) for flv in shard["flavours"] for p in grid}
    for mask in shard["masks"]:
        failed = np.array([(mask >> i) & 1 == 1 for i in range(n)])
        m = n - int(failed.sum())
        infos = {p: (tail_info(p, m) if m else None) for p in grid}
        for perm in perms:
            badness = table[list(perm)]
            for flavour in shard["flavours"]:
                for p in grid:
                    j = judge(filters[(flavour, p)], flavour, badness, failed, p, infos[p])
                    rec.add(("d", flavour, n, mask, perm, p), lambda: case_of("direct", flavour, n, perm, failed, p, seed), j)
    return rec.finish()


def case_of(kind: str, flavour: str, n: int, perm: Any, failed: np.ndarray, p: float, seed: int) -> dict[str, Any]:
    return {
        "kind": kind,
        "flavour": flavour,
        "n": n,
        "perm": list(perm),
        "failed": [bool(b) for b in failed],
        "percentile_hex": float(p).hex(),
        "percentile": p,
        "seed": seed,
    }


def run_case(case: dict[str, Any]) -> Judgement:
    n = case["n"]
    p = float.fromhex(case["percentile_hex"])
    table = value_table(n, case["seed"])
    badness = table[list(case["perm"])] * case.get("scale", 1.0)
    failed = np.array(case["failed"], dtype=bool)
    if case["kind"] == "e2e2":
        return e2e_two_filters(n, tuple(case["perm"]), failed, p, case["seed"])
    if case["kind"] in ("e2e", "e2e-spare"):
        return e2e_judge(case["flavour"], badness, failed, p, spare=case["kind"] == "e2e-spare")
    return judge(make_filter(case["flavour"], n, p), case["flavour"], badness, failed, p)


if __name__ == "__main__":
    sys.exit(core.main(sys.modules[__name__]))
