"""C06 - evaluator requests are complete and correctly labelled; inactive entries inert; no aliasing."""

from __future__ import annotations

import copy
import itertools
import sys
from typing import Any

import numpy as np

from mc import core
from mc.core import Judgement, Recorder
from mc.harness import info_state, TableEvaluator, bytes_of, close, make_manager, make_transforms, validate

PROPERTY = "C06"
RULE = (
    "E4 bounded-depth operation-sequence enumeration on ONE EnsembleEvaluator per sequence (its gradient cache is hidden "
    "state, so no merging): ALL sequences of length <=3 over {functions, functions on a batch, gradient-only, functions+"
    "gradients} x {x0, x1}, for shapes R in {2,3}, P in {1,2}, V in {1,2}, realization weights {uniform, with a zero}, filter "
    "{none, sort window that zeroes realizations (objective 0 + constraint), cvar filter mapped to the constraint only}, transforms {none, variables, objectives, constraints, all}, with and without a failing (NaN) unperturbed and perturbed row. The evaluator "
    "returns an injective dyadic code of (x, realization, function). Monitors on every call: label multiset == full product "
    "once each, perturbation index -1 exactly on unperturbed rows, rows are the user-domain images of the reported "
    "variables, every reported per-realization value (and evaluation_info entry) is the value returned for the row with that label, inactive => weight "
    "0 (and on the gradient-only call weight 0 => inactive); whole-run differentials: garbage {0, 1e6, -7} in inactive "
    "entries must not change any reported function/gradient/weight/flag; a memoizing evaluator's returned objects are "
    "byte-identical before/after every call; an evaluator handing out read-only views of buffers it refills on the next "
    "call must not change any delivered result; delivered results are read-only, share no memory with evaluator arrays and "
    "earlier results are unchanged by later calls. Two single instances beyond the enumerated shapes: 8 objectives + 8 constraints with finite values of +-1e308, and 130 perturbations (labels complete, nothing flagged as failed). Every sequence is non-trivial."
)
ASSUMPTIONS = [
    "per-realization raw values of inactive entries are excluded from the garbage differential (they ARE the garbage)",
    "tolerance 1e-12 relative where transforms round; byte equality elsewhere",
]
BOUNDS = {"quick": "R in {2,3}, P in {1,2}, V=2 (V=1 thorough), sequences <=3 (<=2 for the largest config group)", "thorough": "all listed, sequences <=3"}

OPS = [("F", 0), ("F", 1), ("G", 0), ("G", 1), ("B", 0), ("B", 1), ("FB", 0)]
TRANSFORMS = ["none", "variables", "objectives", "constraints", "all"]


def xpoint(V: int, idx: int) -> np.ndarray:
    return np.array([[0.5, -1.0], [2.0, 0.25]][idx][:V])


def build_config(case: dict[str, Any]) -> tuple[dict[str, Any], Any]:
    R, P, V = case["R"], case["P"], case["V"]
    weights = [1.0] * R if case["weights"] == "uniform" else [0.0 if r == 1 else float(r + 1) for r in range(R)]
    design = [[[0.5 * (k + 1) * (1 if (k + v) % 2 == 0 else -1) + 0.125 * v for v in range(V)] for k in range(P)]]
    design = design[0]
    config: dict[str, Any] = {
        "variables": {"initial_values": xpoint(V, 0).tolist()},
        "realizations": {"weights": weights, "realization_min_success": 1},
        "objectives": {"weights": [1.0, 3.0]},
        "nonlinear_constraints": {"lower_bounds": [0.0], "upper_bounds": [np.inf]},
        "gradient": {"number_of_perturbations": P, "perturbation_magnitudes": 0.25},
        "samplers": [{"method": "verif/design", "options": {"design": design}, "shared": True}],
    }
    if case["filter"] == "con":
        # a filter that is mapped to the constraint only (no objective filter map at all)
        config["realization_filters"] = [{"method": "cvar-constraint", "options": {"sort": 0, "percentile": 0.5}}]
        config["nonlinear_constraints"]["realization_filters"] = [0]
    elif case["filter"]:
        config["realization_filters"] = [{"method": "sort-objective", "options": {"sort": [0], "first": 0, "last": max(0, R - 2)}}]
        config["objectives"]["realization_filters"] = [0, -1]
        config["nonlinear_constraints"]["realization_filters"] = [0]
    t = case["transforms"]
    transforms = None
    if t != "none":
        transforms = make_transforms(
            var_scales=[2.0, 0.5][:V] if t in ("variables", "all") else None,
            var_offsets=[1.0, -0.5][:V] if t in ("variables", "all") else None,
            obj_scales=[4.0, 0.5] if t in ("objectives", "all") else None,
            con_scales=[8.0] if t in ("constraints", "all") else None,
        )
    return config, transforms


def value_fn(x: np.ndarray, r: int) -> list[float]:
    base = float(x[0]) * 1.0 + (float(x[1]) * 0.03125 if x.size > 1 else 0.0)
    return [100.0 * f + 10.0 * r + base + 0.5 for f in range(3)]


def run_sequence(case: dict[str, Any], *, garbage: float | None, memoize: bool, pooled: bool = False) -> dict[str, Any]:
    from ropt.ensemble_evaluator import EnsembleEvaluator
    from ropt.exceptions import OptimizationAborted

    config_dict, transforms = build_config(case)
    config = validate(config_dict, transforms)
    manager, _ = make_manager()
    R_, P_ = case["R"], case["P"]

    def fail(call: int, row: int, r: int, p: int) -> Any:
        if not case.get("fail"):
            return None
        if r == 0 and p == -1:
            return [0]  # NaN in an objective column of an unperturbed row
        if r == R_ - 1 and p == P_ - 1:
            return [1]  # NaN in an objective column of a perturbed row
        return None

    evaluator = TableEvaluator(value_fn, 2, 1, garbage=garbage, memoize=memoize, fail=fail, pooled=pooled, info=True)
    ens = EnsembleEvaluator(config, transforms, evaluator, manager)
    V = case["V"]
    out: dict[str, Any] = {"config": config, "transforms": transforms, "evaluator": evaluator, "steps": [], "error": None}
    for op, idx in case["sequence"]:
        x_user = xpoint(V, idx)
        x_opt = x_user if transforms is None or transforms.variables is None else transforms.variables.to_optimizer(x_user)
        n_before = len(evaluator.calls)
        try:
            if op == "F":
                res = ens.calculate(x_opt, compute_functions=True, compute_gradients=False)
            elif op == "FB":
                other = xpoint(V, 1 - idx)
                other_opt = other if transforms is None or transforms.variables is None else transforms.variables.to_optimizer(other)
                res = ens.calculate(np.vstack([x_opt, other_opt, x_opt]), compute_functions=True, compute_gradients=False)
            elif op == "G":
                res = ens.calculate(x_opt, compute_functions=False, compute_gradients=True)
            else:
                res = ens.calculate(x_opt, compute_functions=True, compute_gradients=True)
        except OptimizationAborted as exc:
            out["error"] = f"abort:{exc.exit_code.name}"
            break
        except Exception as exc:  # noqa: BLE001
            out["error"] = f"{type(exc).__name__}:{str(exc)[:120]}"
            break
        out["steps"].append({"op": op, "idx": idx, "x_opt": np.array(x_opt), "results": res, "calls": list(range(n_before, len(evaluator.calls)))})
    return out


def summarize(run: dict[str, Any]) -> list[Any]:
    """Everything reported except raw per-realization values of inactive entries."""
    from ropt.results import FunctionResults

    out = []
    for step in run["steps"]:
        for res in step["results"]:
            weights_o = res.realizations.objective_weights
            weights_c = res.realizations.constraint_weights
            item: list[Any] = [type(res).__name__, bytes_of(res.realizations.failed_realizations), bytes_of(weights_o), bytes_of(weights_c)]
            if isinstance(res, FunctionResults):
                if res.functions is None:
                    item.append(None)
                else:
                    item += [bytes_of(res.functions.weighted_objective), bytes_of(res.functions.objectives), bytes_of(res.functions.constraints)]
            else:
                if res.gradients is None:
                    item.append(None)
                else:
                    item += [bytes_of(res.gradients.weighted_objective), bytes_of(res.gradients.objectives), bytes_of(res.gradients.constraints)]
            out.append(item)
    return out


def all_arrays(res: Any) -> list[tuple[str, np.ndarray]]:
    out = []
    for fname in ("evaluations", "realizations", "functions", "gradients", "constraint_info"):
        field = getattr(res, fname, None)
        if field is None:
            continue
        for name in getattr(field, "__dataclass_fields__", {}):
            value = getattr(field, name)
            if isinstance(value, np.ndarray):
                out.append((f"{fname}.{name}", value))
    return out


def judge(case: dict[str, Any]) -> Judgement:
    from ropt.results import FunctionResults, GradientResults

    j = Judgement()
    case = dict(case)
    case["sequence"] = [tuple(s) for s in case["sequence"]]
    R, P, V = case["R"], case["P"], case["V"]
    base = run_sequence(case, garbage=None, memoize=False)
    j.transitions = len(case["sequence"])
    if base["error"] is not None and not base["error"].startswith("abort"):
        j.fail("calculate-raised:" + base["error"].split(":")[0], error=base["error"], sequence=case["sequence"])
        return j
    config, transforms, evaluator = base["config"], base["transforms"], base["evaluator"]
    cw = np.asarray(config.realizations.weights)

    def to_user_x(x: np.ndarray) -> np.ndarray:
        return x if transforms is None or transforms.variables is None else transforms.variables.from_optimizer(x)

    snapshots: list[tuple[Any, list[bytes | None]]] = []
    for step in base["steps"]:
        op = step["op"]
        results = step["results"]
        fres = [r for r in results if isinstance(r, FunctionResults)]
        gres = [r for r in results if isinstance(r, GradientResults)]
        calls = [evaluator.calls[k] for k in step["calls"]]
        if len(calls) != 1:
            j.fail("evaluator-call-count", op=op, calls=len(calls))
            continue
        call = calls[0]
        n_rows = call.variables.shape[0]
        labels = [(int(call.realizations[i]), -1 if call.perturbations is None else int(call.perturbations[i])) for i in range(n_rows)]
        # ---- expected label multiset
        batch = len(fres) if (op in ("F", "FB")) else 1
        expected: list[tuple[int, int]] = []
        has_f = bool(fres)
        has_g = bool(gres)
        if has_f:
            for _ in range(batch):
                expected += [(r, -1) for r in range(R)]
        if has_g:
            expected += [(r, p) for r in range(R) for p in range(P)]
        if sorted(labels) != sorted(expected):
            j.fail("request-labels-not-the-full-product-once", op=op, observed=sorted(labels)[:12], expected=sorted(expected)[:12])
            continue
        if has_f and has_g and call.perturbations is None:
            j.fail("perturbation-labels-missing", op=op)
        if call.perturbations is not None and not has_g:
            if np.any(call.perturbations >= 0):
                j.fail("perturbation-label-on-unperturbed-row", op=op)
        # ---- rows are user-domain images of what the results report; values are the returned rows
        # The order of the rows inside a request is not part of the statement: an unperturbed row belongs to the result
        # (of the batch) that reports its variable vector and has not yet been given a row of that realization.
        used: set[tuple[int, int]] = set()
        reported_x = [to_user_x(np.asarray(item.evaluations.variables)) for item in fres]
        for i, (r, p) in enumerate(labels):
            if p < 0:
                b = next((k for k in range(len(fres)) if (k, r) not in used and close(call.variables[i], reported_x[k], 1e-12)), None)
                if b is None:
                    j.fail("unperturbed-row-not-user-domain-variables", op=op, row=i, observed=call.variables[i], expected=reported_x)
                    continue
                used.add((b, r))
                res = fres[b]
                user = res if transforms is None else res.transform_from_optimizer(transforms)
                got = list(np.asarray(user.evaluations.objectives)[r]) + list(np.asarray(user.evaluations.constraints)[r])
                ret = list(call.objectives[i]) + list(call.constraints[i])
                if np.any(np.isnan(ret)):
                    ret = [np.nan] * len(ret)  # a failed row is reported as failed in every column
                if not close(got, ret, 1e-12):
                    j.fail("reported-value-not-the-labelled-row", op=op, label=(r, p), observed=got, returned=ret)
                tag = np.asarray(res.evaluations.evaluation_info.get("tag", []))
                if call.info is not None and (tag.shape != (R,) or tag[r] != call.info[i]):
                    j.fail("evaluation-info-not-the-labelled-row", op=op, label=(r, p), observed=tag, returned=call.info[i])
            else:
                res = gres[0]
                x_rep = to_user_x(np.asarray(res.evaluations.perturbed_variables)[r, p])
                if not close(call.variables[i], x_rep, 1e-12):
                    j.fail("perturbed-row-not-user-domain-variables", op=op, label=(r, p), observed=call.variables[i], expected=x_rep)
                user = res if transforms is None else res.transform_from_optimizer(transforms)
                got = list(np.asarray(user.evaluations.perturbed_objectives)[r, p]) + list(np.asarray(user.evaluations.perturbed_constraints)[r, p])
                ret = list(call.objectives[i]) + list(call.constraints[i])
                if np.any(np.isnan(ret)):
                    ret = [np.nan] * len(ret)
                if not close(got, ret, 1e-12):
                    j.fail("reported-value-not-the-labelled-row", op=op, label=(r, p), observed=got, returned=ret)
                tag = np.asarray(res.evaluations.evaluation_info.get("tag", []))
                if call.info is not None and (tag.shape != (R, P) or tag[r, p] != call.info[i]):
                    j.fail("evaluation-info-not-the-labelled-row", op=op, label=(r, p), observed=tag, returned=call.info[i])
        # ---- activity flags
        for res in results:
            wo = res.realizations.objective_weights
            wc = res.realizations.constraint_weights
            wo = np.repeat(cw[np.newaxis, :], 2, axis=0) if wo is None else np.asarray(wo)
            wc = np.repeat(cw[np.newaxis, :], 1, axis=0) if wc is None else np.asarray(wc)
            ao, ac = call.active_objectives, call.active_constraints
            if ao is not None and np.any(~ao & (wo != 0)):
                j.fail("inactive-entry-with-nonzero-weight:objective", op=op, active=ao, weights=wo)
            if ac is not None and np.any(~ac & (wc != 0)):
                j.fail("inactive-entry-with-nonzero-weight:constraint", op=op, active=ac, weights=wc)
            if call.active is not None:
                # the per-realization flag: a realization may only be flagged inactive if ALL its entries have zero weight
                used = np.any(wo != 0, axis=0) | np.any(wc != 0, axis=0)
                if np.any(~call.active & used):
                    j.fail("realization-flagged-inactive-with-nonzero-weight", op=op, active=call.active, objective_weights=wo, constraint_weights=wc)
            if op == "G" and not has_f:
                # gradient-only evaluation using the function result of the same point: every zero weight is inactive
                ao_full = np.ones_like(wo, dtype=bool) if ao is None else ao
                ac_full = np.ones_like(wc, dtype=bool) if ac is None else ac
                if np.any(ao_full & (wo == 0)) or np.any(ac_full & (wc == 0)):
                    j.fail("zero-weight-entry-not-flagged-inactive-for-gradient", op=op, active=ao_full, weights=wo)
        # ---- delivered results are immutable snapshots, not aliased to evaluator arrays
        for res in results:
            for name, array in all_arrays(res):
                if array.flags.writeable:
                    j.fail(f"result-array-writeable:{name}", op=op)
                for returned in evaluator.returned:
                    for src in (returned.objectives, returned.constraints):
                        if src is not None and np.shares_memory(array, src):
                            j.fail(f"result-array-aliases-evaluator-array:{name}", op=op)
            snapshots.append((res, [bytes_of(a) for _, a in all_arrays(res)]))
    for res, snap in snapshots:
        if [bytes_of(a) for _, a in all_arrays(res)] != snap:
            j.fail("earlier-result-changed-by-later-call", sequence=case["sequence"])
    # ---- garbage differential
    reference = summarize(base)
    for garbage in (0.0, 1e6, -7.0):
        other = run_sequence(case, garbage=garbage, memoize=False)
        j.transitions += len(case["sequence"])
        if other["error"] != base["error"] or summarize(other) != reference:
            sig = "garbage-in-inactive-entries-changes-results" + (":filter" if case["filter"] else "")
            j.fail(sig, garbage=garbage, sequence=case["sequence"], error=other["error"], base_error=base["error"])
            break
    # ---- memoizing evaluator: returned objects untouched; same results
    memo = run_sequence(case, garbage=None, memoize=True)
    j.transitions += len(case["sequence"])
    mev = memo["evaluator"]
    for k, (result, snap) in enumerate(zip(mev.returned, mev.snapshots)):
        now = (bytes_of(result.objectives), bytes_of(result.constraints))
        if now != snap:
            which = "objectives" if now[0] != snap[0] else "constraints"
            nan_written = which == "constraints" and result.constraints is not None and bool(np.any(np.isnan(result.constraints)))
            j.fail(f"evaluator-result-modified:{which}" + (":nan-written" if nan_written else ""), call=k, transforms=case["transforms"])
            break
    for k, (result, snap) in enumerate(zip(mev.returned, mev.info_snapshots)):
        if info_state(result) != snap:
            j.fail("evaluator-result-modified:evaluation_info", call=k, before=[item[:3] for item in snap], after=[item[:3] for item in info_state(result)])
            break
    if memo["error"] != base["error"] or summarize(memo) != reference:
        j.fail("memoizing-evaluator-changes-results", sequence=case["sequence"], transforms=case["transforms"])
    # ---- pooled evaluator: read-only views of buffers that are refilled on every call
    pooled = run_sequence(case, garbage=None, memoize=False, pooled=True)
    j.transitions += len(case["sequence"])
    if pooled["error"] != base["error"] or summarize(pooled) != reference:
        j.fail("results-alias-evaluator-buffers:summary-changed", sequence=case["sequence"])
    else:
        pool_arrays = list(pooled["evaluator"]._pool.values())
        base_items = [a for step in base["steps"] for res in step["results"] for a in all_arrays(res)]
        pool_items = [a for step in pooled["steps"] for res in step["results"] for a in all_arrays(res)]
        for (name, a), (_, b) in zip(base_items, pool_items):
            if any(np.shares_memory(b, buf) for buf in pool_arrays):
                j.fail(f"result-array-aliases-evaluator-buffer:{name}", sequence=case["sequence"])
                break
            if bytes_of(a) != bytes_of(b):
                j.fail(f"delivered-result-overwritten-by-later-evaluator-call:{name}", sequence=case["sequence"])
                break
    j.outcome = f"{''.join(op for op, _ in case['sequence'])}/filter={case['filter']}/w={case['weights']}/t={case['transforms']}/fail={case.get('fail')}/err={base['error']}"
    return j


def sequences(depth: int) -> list[tuple[tuple[str, int], ...]]:
    out: list[tuple[tuple[str, int], ...]] = []
    for n in range(1, depth + 1):
        out += list(itertools.product(OPS, repeat=n))
    return out


def judge_wide(case: dict[str, Any]) -> Judgement:
    """Shapes beyond the enumerated ones (one instance each): many functions with huge finite values of both signs, and
    more perturbations than a small integer type holds. Labels complete and correct; finite values are never failures."""
    from ropt.ensemble_evaluator import EnsembleEvaluator
    from ropt.results import FunctionResults, GradientResults

    j = Judgement()
    kind = case["kind"]
    n_obj, n_con, R, P = (8, 8, 2, 2) if kind == "many-functions" else (1, 0, 1, 130)
    big = [1e308, 1e308, -1e308, -1e308, 1.0, 2.0, 3.0, 4.0]
    config: dict[str, Any] = {
        "variables": {"initial_values": [0.5]},
        "realizations": {"weights": [1.0] * R, "realization_min_success": 0},
        "objectives": {"weights": [1.0] * n_obj},
        "gradient": {"number_of_perturbations": P, "perturbation_magnitudes": 0.01, "perturbation_min_success": 1},
    }
    if n_con:
        config["nonlinear_constraints"] = {"lower_bounds": [-np.inf] * n_con, "upper_bounds": [np.inf] * n_con}

    def fn(x: np.ndarray, r: int) -> list[float]:
        if kind == "many-functions":
            return (big if r == 1 else [float(k) + float(x[0]) for k in range(8)]) + (big[::-1] if r == 0 else [float(-k) for k in range(8)])
        return [float(x[0]) * 2.0]

    manager, _ = make_manager()
    evaluator = TableEvaluator(fn, n_obj, n_con)
    try:
        with np.errstate(all="ignore"):
            results = EnsembleEvaluator(validate(config), None, evaluator, manager).calculate(np.array([0.5]), compute_functions=True, compute_gradients=True)
    except Exception as exc:  # noqa: BLE001
        j.fail(f"wide:calculate-raised:{type(exc).__name__}", message=str(exc)[:200], kind=kind)
        return j
    j.transitions = 1
    j.outcome = f"wide:{kind}"
    call = evaluator.calls[0]
    labels = sorted((int(call.realizations[i]), -1 if call.perturbations is None else int(call.perturbations[i])) for i in range(call.variables.shape[0]))
    expected = sorted([(r, -1) for r in range(R)] + [(r, p) for r in range(R) for p in range(P)])
    if labels != expected:
        wrong = [lab for lab in labels if lab not in expected][:6]
        j.fail("wide:request-labels-not-the-full-product-once", kind=kind, rows=len(labels), unexpected=wrong)
    for item in results:
        if isinstance(item, (FunctionResults, GradientResults)) and np.any(item.realizations.failed_realizations):
            j.fail("wide:finite-values-flagged-as-failure", kind=kind, result=type(item).__name__, failed=item.realizations.failed_realizations)
        if isinstance(item, FunctionResults) and kind == "many-functions":
            got = np.concatenate([np.asarray(item.evaluations.objectives), np.asarray(item.evaluations.constraints)], axis=1)
            want = np.array([fn(np.array([0.5]), r) for r in range(R)])
            if not np.array_equal(got, want):
                j.fail("wide:reported-value-not-the-returned-value", kind=kind)
    return j


def shards(tier: str, seed: int) -> list[dict[str, Any]]:
    out = [{"wide": True, "tier": tier}]
    vs = (2,) if tier == "quick" else (1, 2)
    for R in (2, 3):
        for P in (1, 2):
            for V in vs:
                for weights in ("uniform", "zero"):
                    for flt in (False, True, "con"):
                        for t in TRANSFORMS:
                            if flt == "con" and tier == "quick" and t not in ("none", "all"):
                                continue
                            for fail in (False, True):
                                if fail and tier == "quick" and t not in ("none", "all"):
                                    continue
                                out.append({"R": R, "P": P, "V": V, "weights": weights, "filter": flt, "transforms": t, "fail": fail, "tier": tier})
    return out


def run_shard(shard: dict[str, Any]) -> core.ShardResult:
    rec = Recorder(shard)
    if shard.get("wide"):
        for kind in ("many-functions", "many-perturbations"):
            case = {"wide": True, "kind": kind}
            rec.add(("wide", kind), case, judge_wide(case))
        return rec.finish()
    depth = 3
    if shard["tier"] == "quick" and (shard["R"] == 3 or shard["fail"] or shard["transforms"] in ("variables", "objectives", "constraints")):
        depth = 2
    for seq in sequences(depth):
        case = {k: shard[k] for k in ("R", "P", "V", "weights", "filter", "transforms", "fail")}
        case["sequence"] = [list(s) for s in seq]
        j = judge(case)
        rec.add((shard["R"], shard["P"], shard["V"], shard["weights"], shard["filter"], shard["transforms"], shard["fail"], seq), case, j)
    return rec.finish()


def run_case(case: dict[str, Any]) -> Judgement:
    if case.get("wide"):
        return judge_wide(case)
    return judge(case)


if __name__ == "__main__":
    sys.exit(core.main(sys.modules[__name__]))
