"""C14 - every run ends with the documented exit code under any failure pattern."""

from __future__ import annotations

import itertools
import sys
import warnings
from typing import Any

import numpy as np

from checks import c01
from mc import core, ref
from mc.core import Judgement, Recorder
from mc.explore import Chooser, explore
from mc.harness import AffineEnsemble, TableEvaluator, make_manager, make_transforms

PROPERTY = "C14"
RULE = (
    "(Grid) every supported SciPy method x constraint set it accepts {none, linear rows that all touch a fixed variable, a "
    "linear row on a free variable, two non-linear constraints, both} x mask {none, one fixed, two fixed} x bounds: the "
    "fault-free run must return OPTIMIZER_STEP_FINISHED and 'every row fails at evaluation k' (each k) must return "
    "TOO_FEW_REALIZATIONS right there, never an exception; the same step run again with the same configuration dictionary whose max_functions was changed in place must obey the new budget. (Main) E2 deviation-bounded fault enumeration over COMPLETE runs of both step kinds: at every evaluator call the harness asks "
    "a chooser for the environment answer: no fault (default), ANY non-empty subset of the call's rows failing (NaN), or the "
    "evaluator raising ValueError. All executions with <=1 deviation (quick) / <=2 deviations for the small drivers "
    "(thorough) are run to completion. Drivers: scripted optimizer (4 call-backs: f, g, f+g, f at three points; "
    "NaN-tolerant and intolerant), real slsqp and differential_evolution(seed) on a toy problem, evaluator step with 1-3 "
    "vectors. Configuration alphabet: filter {none, sort-objective, sort-constraint, cvar-objective, cvar-constraint} x "
    "estimator {mean, stddev, mean with merged gradient estimation} x transforms {none, variables, objectives, constraints} x realization_min_success {0,1,R} x "
    "max_functions {none, 1..run length}. Reference exit-code model replays the fault pattern (thresholds, filter weights "
    "from the real filter, stddev needs 2 positive weights, NaN tolerance, budget). Oracle: the step returns normally with "
    "exactly that code; only the injected ValueError escapes, unchanged; function evaluations <= max_functions (+1 batch "
    "for parallel); results of a threshold-caused failing evaluation are delivered. Trivial: successes exist but none has "
    "positive weight."
)
ASSUMPTIONS = [
    "for real optimizers the course of the run is not predicted: the expected code is derived from the recorded history "
    "(some evaluation too few => TOO_FEW_REALIZATIONS and it is the last one; otherwise budget / finished rules)",
]
BOUNDS = {"quick": "deviation bound 1, all row subsets for calls with <=6 rows", "thorough": "bound 1 with all three NaN-column rotations; bound 2 for the scripted/evaluator drivers on the untransformed configurations"}

R, P, V = 2, 2, 1
FILTERS = ["none", "sort-objective", "sort-constraint", "cvar-objective", "cvar-constraint"]
TRANSFORMS = ["none", "variables", "objectives", "constraints"]
POINTS = {"A": [0.5], "B": [-1.0], "C": [2.0]}
SCRIPT = [("f", "A"), ("g", "A"), ("fg", "B"), ("f", "C")]


def ensemble_fn() -> AffineEnsemble:
    slopes = np.array([[[1.0], [0.5], [2.0]], [[-0.75], [2.0], [0.5]]])
    offsets = np.array([[0.5, -1.0, 0.25], [1.25, 0.75, -2.0]])
    return AffineEnsemble(slopes, offsets, quad=[0.5, -0.25, 0.125])


def build_config(case: dict[str, Any]) -> tuple[dict[str, Any], Any, tuple[int, ...], tuple[int, ...]]:
    emap = (0, 1, 0) if case["estimator"] == "stddev" else (0, 0, 0)
    flt = case["filter"]
    config: dict[str, Any] = {
        "variables": {"initial_values": POINTS["A"], "lower_bounds": [-10.0], "upper_bounds": [10.0]},
        "realizations": {"weights": [1.0, 3.0], "realization_min_success": case["rms"]},
        "objectives": {"weights": [1.0, 2.0], "function_estimators": list(emap[:2])},
        "nonlinear_constraints": {"lower_bounds": [-50.0], "upper_bounds": [50.0], "function_estimators": [emap[2]]},
        "function_estimators": [{"method": "mean"}] if case["estimator"] == "merge" else [{"method": "mean"}, {"method": "stddev"}],
        "gradient": {"number_of_perturbations": P, "perturbation_min_success": 1, "perturbation_magnitudes": 0.25,
                     "merge_realizations": case["estimator"] == "merge"},
        "samplers": [{"method": "verif/design", "options": {"design": [[1.0], [-0.5]]}, "shared": True}],
        "optimizer": {},
    }
    fmap = (-1, -1, -1)
    if flt != "none":
        opts: dict[str, Any]
        if flt.startswith("sort"):
            opts = {"sort": [0] if flt.endswith("objective") else 0, "first": 0, "last": 0}
        else:
            opts = {"sort": [0] if flt.endswith("objective") else 0, "percentile": 0.5}
        config["realization_filters"] = [{"method": flt, "options": opts}]
        config["objectives"]["realization_filters"] = [0, -1]
        config["nonlinear_constraints"]["realization_filters"] = [0]
        fmap = (0, -1, 0)
    if case.get("max_functions"):
        config["optimizer"]["max_functions"] = case["max_functions"]
    t = case["transforms"]
    transforms = None
    if t == "variables":
        transforms = make_transforms(var_scales=[2.0], var_offsets=[1.0])
    elif t == "objectives":
        transforms = make_transforms(obj_scales=[4.0, 0.5])
    elif t == "constraints":
        transforms = make_transforms(con_scales=[8.0])
    return config, transforms, emap, fmap


def row_options(n_rows: int) -> list[tuple[int, ...]]:
    """Failing-row subsets offered at a call (all non-empty subsets for <= 6 rows)."""
    if n_rows <= 6:
        return [s for k in range(1, n_rows + 1) for s in itertools.combinations(range(n_rows), k)]
    out = [(i,) for i in range(n_rows)] + [tuple(range(n_rows))]
    return out


class Faulty:
    """Evaluator whose faults are decided by the chooser (one choice point per call)."""

    def __init__(self, chooser: Chooser, *, reduced: bool = False, nan_shift: int = 0) -> None:
        self.chooser = chooser
        self.reduced = reduced
        self.nan_shift = nan_shift
        self.fn = ensemble_fn()
        self.calls: list[dict[str, Any]] = []
        self.raised: Exception | None = None

    def __call__(self, variables: np.ndarray, context: Any) -> Any:
        from ropt.evaluator import EvaluatorResult

        n_rows = variables.shape[0]
        labels = [(int(context.realizations[i]), -1 if context.perturbations is None else int(context.perturbations[i])) for i in range(n_rows)]
        if self.reduced:
            reals = sorted({r for r, _ in labels})
            options = [tuple(i for i, (r, _) in enumerate(labels) if r == real) for real in reals] + [tuple(range(n_rows))]
            options += [(i,) for i, (_, p) in enumerate(labels) if p >= 0][:2]
        else:
            options = row_options(n_rows)
        choice = self.chooser.choose(len(options) + 2, f"call{len(self.calls)}:rows{n_rows}")
        failing: tuple[int, ...] = ()
        record = {"labels": labels, "failing": failing, "variables": np.array(variables), "raise": False}
        self.calls.append(record)
        if choice == len(options) + 1:
            record["raise"] = True
            self.raised = ValueError("injected evaluator failure")
            raise self.raised
        if choice >= 1:
            failing = options[choice - 1]
            record["failing"] = failing
        objectives = np.zeros((n_rows, 2))
        constraints = np.zeros((n_rows, 1))
        for i in range(n_rows):
            values = self.fn(np.asarray(variables[i], dtype=np.float64), labels[i][0])
            objectives[i], constraints[i] = values[:2], values[2:]
        for i in failing:
            # the column carrying the NaN rotates over objective 0, objective 1 and the constraint
            column = (i + self.nan_shift) % 3
            if column < 2:
                objectives[i, column] = np.nan
            else:
                constraints[i, 0] = np.nan
        return EvaluatorResult(objectives=objectives, constraints=constraints)


def analyse(calls: list[dict[str, Any]], config: Any, transforms: Any, emap: Any, fmap: Any, allow_nan: bool, rms_requested: int) -> list[str]:
    """Per evaluator call: 'ok' | 'threshold' (results exist, too few) | 'abort' (filter/estimator abort) | 'undefined'."""
    fn = ensemble_fn()
    # thresholds as REQUESTED in the case (clamped), not as the validated configuration reports them
    rms = min(rms_requested, config.realizations.weights.size)
    pms = 1
    n_real = config.realizations.weights.size
    out = []
    cached: dict[str, Any] | None = None  # last functions-only evaluation: (x bytes, failed_f)
    for call in calls:
        if call["raise"]:
            out.append("raise")
            continue
        labels, failing = call["labels"], set(call["failing"])
        unpert = [(i, r) for i, (r, p) in enumerate(labels) if p < 0]
        pert = [(i, r, p) for i, (r, p) in enumerate(labels) if p >= 0]
        status = "ok"
        # rows of one variable vector are grouped by the vector itself (the order of the rows inside a request is not
        # specified), and put in realization order
        groups: dict[bytes, list[tuple[int, int]]] = {}
        for i, r in unpert:
            groups.setdefault(np.asarray(call["variables"][i], dtype=np.float64).tobytes(), []).append((i, r))
        n_vec = len(groups)
        failed_f_last = None
        x_user = None
        for rows in groups.values():
            rows = sorted(rows, key=lambda item: item[1])
            failed_f = np.array([i in failing for i, _ in rows])
            x_user = call["variables"][rows[0][0]]
            values = np.array([fn(np.asarray(x_user, dtype=np.float64), r) for _, r in rows])
            if transforms is not None and transforms.objectives is not None:
                values[:, :2] = transforms.objectives.to_optimizer(values[:, :2])
            if transforms is not None and transforms.nonlinear_constraints is not None:
                values[:, 2:] = transforms.nonlinear_constraints.to_optimizer(values[:, 2:])
            refc = c01.reference(config, values, failed_f, 2, emap, fmap, rms=rms_requested)
            s = _classify_functions(refc, failed_f, rms, allow_nan, config, fmap, emap)
            status = _worst(status, s)
            failed_f_last, values_last, refc_last = failed_f, values, refc
        if pert:
            if unpert:
                base_failed, base_ref = failed_f_last, refc_last
            elif cached is not None:
                base_failed, base_ref = cached["failed"], cached["ref"]
            else:
                out.append("undefined")
                continue
            if status == "ok" or not unpert:
                ok_count = np.zeros(n_real, dtype=int)
                for i, r, p in pert:
                    if i not in failing:
                        ok_count[r] += 1
                failed_g = base_failed | (ok_count < pms)
                s = _classify_gradients(base_ref, failed_g, rms, allow_nan, config, fmap, emap)
                status = _worst(status, s)
        if unpert and not pert and n_vec == 1:
            cached = {"failed": failed_f_last, "ref": refc_last}
        elif unpert:
            cached = None
        out.append(status)
    return out


def _worst(a: str, b: str) -> str:
    order = ["ok", "undefined", "threshold", "abort"]
    return a if order.index(a) >= order.index(b) else b


def _weights(config: Any, refc: dict[str, Any], fmap: Any, f: int, failed: np.ndarray) -> np.ndarray | None:
    base = config.realizations.weights if fmap[f] < 0 else refc["fweights"].get(fmap[f])
    if base is None:
        return None
    return ref.norm_weights(base, failed)


def _classify_functions(refc: dict[str, Any], failed: np.ndarray, rms: int, allow_nan: bool, config: Any, fmap: Any, emap: Any) -> str:
    if refc["abort"] and not refc["fweights"]:
        return "abort"  # a filter found nothing to select
    if refc["abort"]:
        # either a later filter or the stddev estimator aborted; thresholds are checked first by the implementation only
        # after the filters ran, so a filter abort wins; an estimator abort only happens past the threshold gate
        if int(np.count_nonzero(~failed)) < rms:
            return "threshold" if len(refc["fweights"]) == len({x for x in fmap if x >= 0}) else "abort"
        return "abort"
    if int(np.count_nonzero(~failed)) < rms:
        return "threshold"
    if np.all(failed):
        return "ok" if allow_nan else "threshold"
    if all(_weights(config, refc, fmap, f, failed) is None for f in range(3)):
        return "undefined"
    if any(_weights(config, refc, fmap, f, failed) is None for f in range(3)):
        return "undefined"
    return "ok"


def _classify_gradients(refc: dict[str, Any], failed_g: np.ndarray, rms: int, allow_nan: bool, config: Any, fmap: Any, emap: Any) -> str:
    if refc["abort"]:
        return "ok"  # already handled by the function part
    if int(np.count_nonzero(~failed_g)) < rms:
        return "threshold"
    if np.all(failed_g):
        return "undefined" if allow_nan else "threshold"
    for f in range(3):
        w = _weights(config, refc, fmap, f, failed_g)
        if w is None:
            return "undefined"
        if emap[f] == 1 and int(np.count_nonzero(w > 0)) < 2:
            return "abort"
    return "ok"


DOCUMENTED = {"TOO_FEW_REALIZATIONS", "MAX_FUNCTIONS_REACHED", "USER_ABORT", "OPTIMIZER_STEP_FINISHED", "EVALUATION_STEP_FINISHED",
              "NESTED_OPTIMIZER_FAILED"}


def execute(case: dict[str, Any], chooser: Chooser) -> dict[str, Any]:
    from ropt.enums import EventType
    from ropt.plan import OptimizerContext, Plan

    config, transforms, emap, fmap = build_config(case)
    driver = case["driver"]
    manager, _ = make_manager()
    evaluator = Faulty(chooser, reduced=driver in ("slsqp", "de"), nan_shift=case.get("nan_shift", 0))
    context = OptimizerContext(evaluator=evaluator, plugin_manager=manager)
    counts = {"start": 0, "finished": 0, "function_results": 0}

    def on_start(event: Any) -> None:
        counts["start"] += 1

    def on_finished(event: Any) -> None:
        from ropt.results import FunctionResults

        counts["finished"] += 1
        counts["function_results"] += sum(1 for r in event.data["results"] if isinstance(r, FunctionResults))

    context.add_observer(EventType.START_EVALUATION, on_start)
    context.add_observer(EventType.FINISHED_EVALUATION, on_finished)
    plan = Plan(context)
    to_opt = (lambda x: x) if transforms is None or transforms.variables is None else transforms.variables.to_optimizer
    out: dict[str, Any] = {"code": None, "exception": None, "same_exception": False}
    allow_nan = False
    try:
        if driver == "evaluator":
            step = plan.add_step("evaluator")
            pts = [POINTS[k] for k in ("A", "B", "C")[: case["vectors"]]]
            variables = to_opt(np.array(pts)) if len(pts) > 1 else to_opt(np.array(pts[0]))
            code = plan.run_step(step, config=config, transforms=transforms, variables=variables)
        else:
            step = plan.add_step("optimizer")
            if driver == "scripted":
                script = [[list(to_opt(np.array(POINTS[pt]))), "f" in kind, "g" in kind] for kind, pt in SCRIPT]
                allow_nan = bool(case.get("allow_nan"))
                config["optimizer"].update({"method": "verif/scripted", "options": {"script": script, "allow_nan": allow_nan}})
            elif driver == "slsqp":
                config["optimizer"].update({"method": "slsqp", "options": {"maxiter": 2}})
            else:
                allow_nan = True
                config["optimizer"].update({"method": "differential_evolution", "options": {"maxiter": 1, "popsize": 2, "seed": 3}})
            code = plan.run_step(step, config=config, transforms=transforms)
        out["code"] = code.name
    except Exception as exc:  # noqa: BLE001
        out["exception"] = type(exc).__name__
        out["same_exception"] = exc is evaluator.raised
        chain, seen = exc, 0
        while chain is not None and seen < 10:
            if chain is evaluator.raised:
                out["same_exception"] = True
            chain = chain.__cause__ or chain.__context__
            seen += 1
    if driver == "evaluator":
        allow_nan = True  # NaN tolerance is a property of optimization methods; an evaluator step just reports
    out["chained"] = False
    out.update({"calls": evaluator.calls, "counts": counts, "allow_nan": allow_nan, "config": config, "transforms": transforms,
                "emap": emap, "fmap": fmap})
    return out


def judge_run(case: dict[str, Any], run: dict[str, Any]) -> Judgement:
    from mc.harness import validate

    j = Judgement()
    driver = case["driver"]
    calls = run["calls"]
    config = validate(run["config"], run["transforms"])
    statuses = analyse(calls, config, run["transforms"], run["emap"], run["fmap"], run["allow_nan"], case["rms"])
    j.transitions = len(calls)
    injected = any(c["raise"] for c in calls)
    finished_code = "EVALUATION_STEP_FINISHED" if driver == "evaluator" else "OPTIMIZER_STEP_FINISHED"
    detail = {"case": {k: v for k, v in case.items() if k != "choices"}, "statuses": statuses, "failing": [list(c["failing"]) for c in calls]}
    # exceptions
    if run["exception"] is not None:
        if injected and run["same_exception"]:
            # the injected exception escaped (possibly wrapped by SciPy, e.g. differential_evolution re-raises it as
            # RuntimeError with the original as context): it was not swallowed
            j.outcome = "injected-exception-escaped"
            return j
        if "undefined" in statuses and not injected:
            j.trivial = True
            j.outcome = "undefined:exception"
            return j
        where = next((s for s in statuses if s != "ok"), "ok")
        j.fail(f"unrelated-exception:{run['exception']}:{driver}:{where}", **detail)
        return j
    if injected:
        j.fail("evaluator-exception-swallowed", code=run["code"], **detail)
        return j
    code = run["code"]
    if code not in DOCUMENTED:
        j.fail(f"undocumented-exit-code:{code}", **detail)
        return j
    if "undefined" in statuses:
        j.trivial = True
        j.outcome = "undefined"
        return j
    bad = [k for k, s in enumerate(statuses) if s in ("threshold", "abort")]
    max_functions = case.get("max_functions")
    n_functions = run["counts"]["function_results"]
    if bad:
        first = bad[0]
        if code != "TOO_FEW_REALIZATIONS":
            j.fail(f"too-few-evaluation-but-code-{code}:{driver}:{statuses[first]}", **detail)
        elif first != len(calls) - 1:
            j.fail("run-continued-after-too-few-evaluation", **detail)
        elif statuses[first] == "threshold" and run["counts"]["finished"] != run["counts"]["start"]:
            j.fail("results-of-failing-evaluation-not-delivered", counts=run["counts"], **detail)
        j.outcome = f"{driver}:TOO_FEW:{statuses[first]}"
        return j
    if code == "TOO_FEW_REALIZATIONS":
        j.fail(f"TOO_FEW_REALIZATIONS-without-too-few-evaluation:{driver}", **detail)
        return j
    if max_functions and n_functions > max_functions + (0 if driver != "de" else 0):
        j.fail("more-function-evaluations-than-max_functions", functions=n_functions, **detail)
    if driver == "scripted":
        completed, expected = 0, finished_code
        n_expected_calls = 0
        for kind, _ in SCRIPT:
            if max_functions and completed >= max_functions:
                expected = "MAX_FUNCTIONS_REACHED"
                break
            n_expected_calls += 1
            completed += int("f" in kind)
        if code != expected:
            j.fail(f"expected-{expected}-got-{code}", **detail)
        if len(calls) != n_expected_calls:
            j.fail("unexpected-number-of-evaluations", observed=len(calls), expected=n_expected_calls, **detail)
    elif driver == "evaluator":
        if code != finished_code:
            j.fail(f"expected-{finished_code}-got-{code}", **detail)
    else:
        if code == "MAX_FUNCTIONS_REACHED":
            if not max_functions or n_functions < max_functions:
                j.fail("MAX_FUNCTIONS_REACHED-before-budget-exhausted", functions=n_functions, **detail)
        elif code != finished_code:
            j.fail(f"unexpected-code-{code}", **detail)
        elif max_functions and case.get("baseline_functions") and not any(c["failing"] for c in calls) \
                and case["baseline_functions"] > max_functions:
            j.fail("budget-smaller-than-run-but-not-MAX_FUNCTIONS_REACHED", functions=n_functions, **detail)
    j.outcome = f"{driver}:{code}"
    return j


def configs(tier: str) -> list[dict[str, Any]]:
    out = []
    for flt in FILTERS:
        for est in ("mean", "stddev", "merge"):
            for t in TRANSFORMS:
                for rms in (0, 1, R):
                    if tier == "quick" and est == "merge" and (t != "none" or flt not in ("none", "sort-objective")):
                        continue  # quick: the merged estimator on the untransformed configurations with two filter settings
                    out.append({"filter": flt, "estimator": est, "transforms": t, "rms": rms})
    return out


def shards(tier: str, seed: int) -> list[dict[str, Any]]:
    out = []
    for cfg in configs(tier):
        for driver in ("scripted", "evaluator", "slsqp", "de"):
            if driver in ("slsqp", "de") and tier == "quick" and cfg["transforms"] in ("objectives",):
                continue
            out.append({**cfg, "driver": driver, "tier": tier})
    for group in core.chunked(grid_cases(), 8):
        out.append({"kind": "grid", "cases": group, "tier": tier})
    return out


def variants(shard: dict[str, Any]) -> list[dict[str, Any]]:
    driver = shard["driver"]
    base = {k: shard[k] for k in ("filter", "estimator", "transforms", "rms", "driver")}
    shifts = (0, 1, 2) if shard["tier"] == "thorough" else (0,)
    if driver == "scripted":
        return [{**base, "max_functions": m, "allow_nan": a, "nan_shift": s} for m in (None, 1, 2, 3) for a in (False, True) for s in shifts]
    if driver == "evaluator":
        return [{**base, "vectors": n, "nan_shift": s} for n in (1, 2, 3) for s in shifts]
    return [{**base, "max_functions": m, "nan_shift": s} for m in (None, 2, 5) for s in shifts]


def run_shard(shard: dict[str, Any]) -> core.ShardResult:
    rec = Recorder(shard)
    if shard.get("kind") == "grid":
        for case in shard["cases"]:
            rec.add(("grid", case["method"], case["conset"], None if case["mask"] is None else tuple(case["mask"]), case["bounds"]),
                    case, judge_grid(case))
        return rec.finish()
    # thorough: two deviations for the scripted / evaluator drivers on the untransformed configurations
    bound = 2 if (shard["tier"] == "thorough" and shard["driver"] in ("scripted", "evaluator") and shard["transforms"] == "none") else 1
    for case in variants(shard):
        # the two-deviation runs use one NaN-column rotation and budgets {none, 2}; the other variants run with bound 1
        case_bound = 1 if (bound == 2 and (case.get("nan_shift") or case.get("max_functions") in (1, 3))) else bound
        baseline_functions = None
        for choices, chooser, run in explore(lambda ch, c=case: execute(c, ch), case_bound):
            full = dict(case)
            full["choices"] = choices
            if not any(choices) and baseline_functions is None:
                baseline_functions = run["counts"]["function_results"]
            full["baseline_functions"] = baseline_functions
            j = judge_run(full, run)
            rec.add((tuple(sorted((k, str(v)) for k, v in case.items())), tuple(choices)), full, j)
    rec.result.extra["deviation_bound"] = bound
    return rec.finish()


# ---------------------------------------------------------------------------- method grid (real SciPy runs, V=3)

GRID_METHODS = {"slsqp": ("con", "lin"), "cobyla": ("con", "lin"), "differential_evolution": ("con", "lin"), "nelder-mead": (),
                "powell": (), "cg": (), "bfgs": (), "newton-cg": (), "l-bfgs-b": (), "tnc": ()}
GRID_BOUNDS = {"slsqp", "differential_evolution", "nelder-mead", "powell", "l-bfgs-b", "tnc"}


def grid_cases() -> list[dict[str, Any]]:
    out = []
    for method, caps in GRID_METHODS.items():
        consets = ["none"] + (["lin-fixed", "lin-free", "twocon", "twocon+lin-fixed"] if caps else [])
        for conset in consets:
            for mask in (None, [True, False, True], [False, False, True]):
                for bounds in ((False, True) if method in GRID_BOUNDS else (False,)):
                    if method == "differential_evolution" and not bounds:
                        continue
                    out.append({"kind": "grid", "method": method, "conset": conset, "mask": mask, "bounds": bounds})
    return out


def grid_config(case: dict[str, Any]) -> dict[str, Any]:
    method = case["method"]
    options: dict[str, Any] = {"maxiter": 3}
    if method == "differential_evolution":
        options = {"maxiter": 1, "popsize": 2, "seed": 11}
    config: dict[str, Any] = {
        "variables": {"initial_values": [0.5, -0.25, 1.0]},
        "realizations": {"weights": [1.0, 2.0]},
        "gradient": {"number_of_perturbations": 2, "perturbation_magnitudes": 0.05, "seed": 3},
        "optimizer": {"method": method, "options": options},
    }
    if case["bounds"]:
        config["variables"]["lower_bounds"] = [-2.0, -2.0, -2.0]
        config["variables"]["upper_bounds"] = [2.0, 2.0, 3.0]
    if case["mask"] is not None:
        config["variables"]["mask"] = case["mask"]
    conset = case["conset"]
    if "lin-fixed" in conset:  # every row touches variable 1, which the masks fix: all rows are dropped under a mask
        config["linear_constraints"] = {"coefficients": [[1.0, 1.0, 0.0], [0.0, 1.0, -1.0]], "lower_bounds": [-1.0, -3.0], "upper_bounds": [4.0, 3.0]}
    if "lin-free" in conset:
        config["linear_constraints"] = {"coefficients": [[0.0, 0.0, 1.0]], "lower_bounds": [-1.5], "upper_bounds": [2.5]}
    if "twocon" in conset:
        config["nonlinear_constraints"] = {"lower_bounds": [-50.0, -60.0], "upper_bounds": [50.0, 60.0]}
    return config


def judge_grid(case: dict[str, Any]) -> Judgement:
    """Fault-free run and 'everything fails at evaluation k' for every k: normal return with the documented code."""
    from ropt.evaluator import EvaluatorResult
    from ropt.plan import OptimizerContext, Plan

    j = Judgement()
    n_con = 2 if "twocon" in case["conset"] else 0
    target = np.array([0.25, 0.5, -0.5])

    def run_once(nan_at: int | None) -> tuple[Any, Any, int]:
        state = {"evals": 0}

        def evaluator(variables: np.ndarray, context: Any) -> Any:
            k = state["evals"]
            state["evals"] += 1
            n_rows = variables.shape[0]
            objectives = np.zeros((n_rows, 1))
            constraints = np.zeros((n_rows, n_con)) if n_con else None
            for i in range(n_rows):
                x = np.asarray(variables[i], dtype=np.float64)
                r = int(context.realizations[i])
                objectives[i, 0] = float((x - target) @ (x - target)) * (1 + 0.5 * r) + 0.125 * r
                if constraints is not None:
                    constraints[i, 0] = float(x[0] + 2 * x[2]) + r
                    constraints[i, 1] = float(x[0] * x[2]) - 0.5 * r
            if nan_at == k:
                objectives[:, 0] = np.nan
            return EvaluatorResult(objectives=objectives, constraints=constraints)

        plan = Plan(OptimizerContext(evaluator=evaluator))
        step = plan.add_step("optimizer")
        try:
            with warnings.catch_warnings():
                warnings.simplefilter("ignore")
                code = plan.run_step(step, config=grid_config(case)).name
            return code, None, state["evals"]
        except Exception as exc:  # noqa: BLE001
            return None, f"{type(exc).__name__}: {str(exc)[:160]}", state["evals"]

    label = f"{case['method']}"
    code, error, n_evals = run_once(None)
    j.transitions = n_evals
    if error is not None:
        j.fail(f"grid:fault-free-run-raised:{error.split(':')[0]}", error=error, case=case)
        j.outcome = f"grid:{label}:raised"
        return j
    if code != "OPTIMIZER_STEP_FINISHED":
        j.fail(f"grid:fault-free-run-ended-with-{code}", case=case)
    for k in range(min(n_evals, 4)):
        code_k, error_k, n_k = run_once(k)
        j.transitions += n_k
        if error_k is not None:
            j.fail(f"grid:unrelated-exception:{error_k.split(':')[0]}", error=error_k, nan_at=k, case=case)
        elif code_k != "TOO_FEW_REALIZATIONS":
            j.fail(f"grid:all-rows-failed-but-code-{code_k}", nan_at=k, case=case)
        elif n_k != k + 1:
            j.fail("grid:run-continued-after-too-few-evaluation", nan_at=k, evaluations=n_k, case=case)
    # the SAME step run again with the SAME configuration dictionary after its budget was changed in place: the second
    # run obeys the configuration it is given
    if n_evals > 1:
        state2 = {"function_evaluations": 0}

        def evaluator2(variables: np.ndarray, context: Any) -> Any:
            if context.perturbations is None or np.any(np.asarray(context.perturbations) < 0):
                state2["function_evaluations"] += 1
            n_rows = variables.shape[0]
            objectives = np.array([[float((np.asarray(variables[i]) - target) @ (np.asarray(variables[i]) - target)) * (1 + 0.5 * int(context.realizations[i]))
                                    + 0.125 * int(context.realizations[i])] for i in range(n_rows)])
            constraints = None
            if n_con:
                constraints = np.array([[float(variables[i][0] + 2 * variables[i][2]) + int(context.realizations[i]),
                                         float(variables[i][0] * variables[i][2]) - 0.5 * int(context.realizations[i])] for i in range(n_rows)])
            return EvaluatorResult(objectives=objectives, constraints=constraints)

        plan = Plan(OptimizerContext(evaluator=evaluator2))
        step = plan.add_step("optimizer")
        shared_config = grid_config(case)
        try:
            with warnings.catch_warnings():
                warnings.simplefilter("ignore")
                plan.run_step(step, config=shared_config)
                state2["function_evaluations"] = 0
                shared_config["optimizer"]["max_functions"] = 1
                code2 = plan.run_step(step, config=shared_config).name
            j.transitions += 2
            if code2 != "MAX_FUNCTIONS_REACHED" or state2["function_evaluations"] > 1:
                j.fail("grid:rerun-of-step-ignores-changed-configuration", code=code2, function_evaluations=state2["function_evaluations"], case=case)
        except Exception as exc:  # noqa: BLE001
            j.fail(f"grid:rerun-raised:{type(exc).__name__}", message=str(exc)[:160], case=case)
    j.outcome = f"grid:{label}:{case['conset']}:mask={case['mask'] is not None}"
    return j


def run_case(case: dict[str, Any]) -> Judgement:
    if case.get("kind") == "grid":
        return judge_grid(case)
    chooser = Chooser(prefix=list(case["choices"]))
    run = execute(case, chooser)
    return judge_run(case, run)


if __name__ == "__main__":
    sys.exit(core.main(sys.modules[__name__]))
