"""C09 - fixed (masked-out) variables never move and never receive a gradient."""

from __future__ import annotations

import itertools
import sys
from typing import Any

import numpy as np

from mc import core
from mc.core import Judgement, Recorder
from mc.harness import AffineEnsemble, TableEvaluator, make_manager, make_transforms, scipy_entry_points

PROPERTY = "C09"
RULE = (
    "E4 + E1: V=3, EVERY non-empty variable mask (plus no mask); a scripted optimizer issuing ALL sequences of length <=3 "
    "over {functions, gradient, both, functions on a 2-row batch} x 2 free-variable points through a real Plan/optimizer "
    "step started from the configured initial values or from explicit start values; real slsqp / nelder-mead / "
    "differential_evolution(seed, scalar and vectorized) short runs with the scipy entry point wrapped to observe the vectors the "
    "algorithm sees; samplers {one built-in, two built-in samplers on disjoint variable sets, two quasi-Monte-Carlo samplers on disjoint sets, injected design}; variable "
    "scaler on/off; nested plans whose inner optimization owns the complementary mask. Monitors on EVERY evaluator row and "
    "EVERY delivered result (user-domain and optimizer-domain): fixed entries == the starting value (after a nested "
    "delivery: the value last delivered by the inner optimization), byte-equal without transforms, 1e-12 with; gradient "
    "entries of fixed variables == 0.0; vectors given to / returned by the algorithm have length = number of free "
    "variables. Trivial: the all-free mask (nothing is fixed)."
    " Beyond V=3: single large instances with 300 variables (three fixed-index patterns incl. fixed j with free 256+j) x {norm, uniform, sobol, lhs} x shared on/off through EnsembleEvaluator.calculate, two calls: every vector handed to the evaluator, the reported perturbed variables and gradients judged with the same == tests."
)
ASSUMPTIONS = ["initial values inside the bounds; quadratic ensemble; nested inner optimization is a scripted 2-request run"]
BOUNDS = {"quick": "all 7 masks + none, sequences <=3, 4 sampler settings, scaler on/off; nested sequences <=3", "thorough": "sequences <=4; both tiers + 24 single 300-variable instances"}

V = 3
X0 = np.array([0.5, -1.0, 2.0])
REQUESTS = [("f", 0), ("f", 1), ("g", 0), ("g", 1), ("fg", 0), ("fg", 1), ("fb", 0)]
START_SHIFT = np.array([0.125, 0.25, -0.5])
SAMPLERS = ["one", "two", "qmc", "design"]


def ensemble_fn() -> AffineEnsemble:
    slopes = np.array([[[1.0, -2.0, 0.5], [0.5, 1.5, -1.0]], [[-0.75, 0.25, 2.0], [2.0, -1.0, 0.25]]])
    offsets = np.array([[0.5, -1.0], [1.25, 0.75]])
    return AffineEnsemble(slopes, offsets, quad=[0.5, -0.25])


def free_point(n_free: int, idx: int) -> list[float]:
    return [[0.25, -0.5, 1.5], [1.0, 0.75, -0.25]][idx][:n_free]


def build_config(mask: Any, sampler: str, method: str, options: Any) -> dict[str, Any]:
    variables: dict[str, Any] = {"initial_values": X0.tolist(), "lower_bounds": [-10.0] * V, "upper_bounds": [10.0] * V}
    if mask is not None:
        variables["mask"] = mask
    n_free = V if mask is None else sum(mask)
    config: dict[str, Any] = {
        "variables": variables,
        "realizations": {"weights": [1.0, 2.0]},
        "nonlinear_constraints": {"lower_bounds": [-100.0], "upper_bounds": [100.0]},
        "gradient": {"number_of_perturbations": 2, "perturbation_magnitudes": 0.125, "seed": 11},
        "optimizer": {"method": method, "options": options},
    }
    if sampler == "one":
        config["samplers"] = [{"method": "norm"}]
    elif sampler == "two":
        config["samplers"] = [{"method": "norm"}, {"method": "uniform", "shared": True}]
        config["gradient"]["samplers"] = [0, 1, 0]
    elif sampler == "qmc":
        # quasi-Monte-Carlo methods map their points from the unit cube: what they leave for variables they do not handle
        # must still be zero
        config["samplers"] = [{"method": "sobol"}, {"method": "halton", "shared": True}]
        config["gradient"]["samplers"] = [0, 1, 0]
    else:
        design = [[0.5 * (k + 1) * (-1) ** (k + i) for i in range(n_free)] for k in range(2)]
        config["samplers"] = [{"method": "verif/design", "options": {"design": design}, "shared": True}]
    return config


class Monitor:
    """Checks every evaluator row and every delivered result against the expected fixed values."""

    def __init__(self, j: Judgement, mask: Any, transforms: Any, tag: str, start: np.ndarray | None = None) -> None:
        self.j = j
        self.start = X0 if start is None else start
        self.free = np.ones(V, dtype=bool) if mask is None else np.array(mask, dtype=bool)
        self.fixed = ~self.free
        self.transforms = transforms
        self.tag = tag
        self.expected_fixed = self.start[self.fixed].copy()  # user domain
        self.rows = 0
        self.results = 0

    def same(self, got: np.ndarray, expected: np.ndarray) -> bool:
        if self.transforms is None:
            return bool(np.array_equal(got, expected))
        return bool(np.all(np.abs(got - expected) <= 1e-12 * (1 + np.abs(expected))))

    def check_rows(self, variables: np.ndarray) -> None:
        for row in np.atleast_2d(variables):
            self.rows += 1
            if not self.same(row[self.fixed], self.expected_fixed):
                self.j.fail(f"{self.tag}:fixed-variable-moved-in-evaluator-row", observed=row, expected_fixed=self.expected_fixed, mask=self.free)
                return

    def check_event(self, event: Any) -> None:
        from ropt.results import FunctionResults, GradientResults

        exp_opt = None
        if self.transforms is not None and self.transforms.variables is not None:
            full = self.start.copy()
            full[self.fixed] = self.expected_fixed
            exp_opt = self.transforms.variables.to_optimizer(full)[self.fixed]
        for key, expected in (("results", self.expected_fixed), ("transformed_results", exp_opt)):
            if key not in event.data or expected is None:
                continue
            for res in event.data[key]:
                self.results += 1
                ev = res.evaluations
                if not self.same(np.asarray(ev.variables)[self.fixed], expected):
                    self.j.fail(f"{self.tag}:fixed-variable-moved-in-result", field=f"{key}.variables", observed=ev.variables)
                if isinstance(res, GradientResults):
                    pv = np.asarray(ev.perturbed_variables)[..., self.fixed]
                    if not self.same(pv, np.broadcast_to(expected, pv.shape)):
                        self.j.fail(f"{self.tag}:fixed-variable-perturbed", field=f"{key}.perturbed_variables")
                    if res.gradients is not None:
                        for name in ("weighted_objective", "objectives", "constraints"):
                            arr = getattr(res.gradients, name)
                            if arr is not None and np.any(np.asarray(arr)[..., self.fixed] != 0.0):
                                self.j.fail(f"{self.tag}:fixed-variable-gradient-nonzero", field=f"{key}.gradients.{name}", observed=arr)
                if isinstance(res, FunctionResults) and res.constraint_info is not None and key == "results":
                    pass


def transforms_of(flag: bool) -> Any:
    return make_transforms(var_scales=[2.0, 0.5, 4.0], var_offsets=[1.0, -1.0, 0.0]) if flag else None


def run_plan(config: dict[str, Any], transforms: Any, monitor: Monitor, j: Judgement, *, n_con: int = 1, start: np.ndarray | None = None) -> Any:
    from ropt.enums import EventType
    from ropt.plan import OptimizerContext, Plan

    manager, scripted = make_manager()
    evaluator = TableEvaluator(ensemble_fn(), 1, n_con)

    context = OptimizerContext(evaluator=evaluator, plugin_manager=manager)
    context.add_observer(EventType.FINISHED_EVALUATION, monitor.check_event)
    plan = Plan(context)
    step = plan.add_step("optimizer")
    if start is None:
        code = plan.run_step(step, config=config, transforms=transforms)
    else:
        start_opt = start if transforms is None or transforms.variables is None else transforms.variables.to_optimizer(start)
        code = plan.run_step(step, config=config, transforms=transforms, variables=start_opt)
    for call in evaluator.calls:
        monitor.check_rows(call.variables)
    return code, scripted, evaluator


def judge_scripted(case: dict[str, Any]) -> Judgement:
    j = Judgement()
    mask = case["mask"]
    relinf = bool(case.get("relinf"))
    n_free = V if mask is None else sum(mask)
    script = []
    for kind, idx in case["sequence"]:
        if kind == "fb":
            script.append([[free_point(n_free, 0), free_point(n_free, 1)], True, False])
        else:
            script.append([free_point(n_free, idx), kind in ("f", "fg"), kind in ("g", "fg")])
    config = build_config(mask, case["sampler"], "verif/scripted", {"script": script})
    if relinf:
        # relative perturbations while the FIXED variables are unbounded: such a configuration may be rejected, but if
        # it is accepted the fixed variables must still not move
        fixed = [not m for m in mask]
        config["variables"]["lower_bounds"] = [-np.inf if f else -10.0 for f in fixed]
        config["variables"]["upper_bounds"] = [np.inf if f else 10.0 for f in fixed]
        config["gradient"]["perturbation_types"] = 2
        config["gradient"]["perturbation_magnitudes"] = 0.01
    transforms = transforms_of(case["scaler"])
    start = X0 + START_SHIFT if case.get("explicit_start") else None
    monitor = Monitor(j, mask, transforms, "scripted", start)
    try:
        code, scripted, evaluator = run_plan(config, transforms, monitor, j, start=start)
    except Exception as exc:  # noqa: BLE001
        if relinf and isinstance(exc, ValueError):
            j.trivial = True
            j.outcome = "relinf:rejected"
            return j
        j.fail(f"scripted-run-raised:{type(exc).__name__}", message=str(exc)[:200])
        return j
    log = scripted.log
    # (Optimizer.start receives the full initial vector by API design; slicing by the mask is the plug-in's job and is
    #  observed on the real SciPy plug-in in judge_real.)
    for (x, want_f, want_g), (functions, gradients) in zip(log.requests, log.answers):
        if want_g and np.asarray(x).ndim == 1 and np.asarray(gradients).shape != (2, n_free):
            j.fail("gradient-handed-to-algorithm-has-wrong-width", observed=np.asarray(gradients).shape, n_free=n_free)
    j.transitions = len(script)
    j.trivial = mask is None or all(mask)
    j.outcome = f"scripted:free={n_free}:{case['sampler']}:scaler={case['scaler']}:rows={min(monitor.rows, 1)}"
    return j


def judge_real(case: dict[str, Any]) -> Judgement:
    import ropt.plugins.optimizer.scipy as plugin

    j = Judgement()
    mask = case["mask"]
    n_free = V if mask is None else sum(mask)
    method = case["method"]
    options: Any = {"maxiter": 3}
    if method == "differential_evolution":
        options = {"maxiter": 2, "popsize": 3, "seed": 5}
    config = build_config(mask, case["sampler"], method, options)
    config["optimizer"]["max_functions"] = 12
    if method == "nelder-mead":
        config.pop("nonlinear_constraints")
    transforms = transforms_of(case["scaler"])
    start = X0 + START_SHIFT if case.get("explicit_start") else None
    if case.get("parallel"):
        config["optimizer"]["parallel"] = True
    monitor = Monitor(j, mask, transforms, f"real-{method}", start)
    seen: list[int] = []
    real: dict[str, Any] = {}

    def wrap(fun: Any) -> Any:
        def inner(x: Any, *args: Any) -> Any:
            seen.append(np.asarray(x).shape[0])  # vectorized DE passes (n_free, population) arrays
            return fun(x, *args)
        return inner

    def min_wrapper(**kwargs: Any) -> Any:
        seen.append(np.asarray(kwargs["x0"]).shape[0])
        kwargs["fun"] = wrap(kwargs["fun"])
        if callable(kwargs.get("jac")):
            kwargs["jac"] = wrap(kwargs["jac"])
        result = real["minimize"](**kwargs)
        seen.append(np.asarray(result.x).shape[0])
        return result

    def de_wrapper(**kwargs: Any) -> Any:
        seen.append(np.asarray(kwargs["x0"]).shape[0])
        kwargs["func"] = wrap(kwargs["func"])
        result = real["differential_evolution"](**kwargs)
        seen.append(np.asarray(result.x).shape[0])
        return result

    try:
        with scipy_entry_points(min_wrapper, de_wrapper) as entry_points:
            real.update(entry_points)
            code, _, evaluator = run_plan(config, transforms, monitor, j, n_con=0 if method == "nelder-mead" else 1, start=start)
    except Exception as exc:  # noqa: BLE001
        j.fail(f"real-run-raised:{type(exc).__name__}", message=str(exc)[:200], method=method)
        return j
    if any(n != n_free for n in seen):
        j.fail("algorithm-saw-vector-of-wrong-length", observed=sorted(set(seen)), n_free=n_free, method=method)
    j.transitions = len(evaluator.calls)
    j.trivial = mask is None or all(mask)
    j.outcome = f"real:{method}:free={n_free}:{case['sampler']}:scaler={case['scaler']}:code={code.name}"
    return j


def judge_nested(case: dict[str, Any]) -> Judgement:
    """Outer optimization over `mask`, inner (nested) optimization over the complement."""
    from ropt.enums import EventType
    from ropt.plan import OptimizerContext, Plan
    from ropt.results import FunctionResults, GradientResults

    j = Judgement()
    mask = case["mask"]
    outer_free = np.array(mask, dtype=bool)
    inner_mask = [not m for m in mask]
    n_outer, n_inner = int(outer_free.sum()), int((~outer_free).sum())
    outer_script = [[free_point(n_outer, idx), kind in ("f", "fg"), kind in ("g", "fg")] for kind, idx in case["sequence"]]
    inner_points = [[0.75, -1.5, 0.25][:n_inner], [-0.5, 0.5, 1.25][:n_inner]]
    inner_script = [[inner_points[0], True, False], [inner_points[1], True, True]]
    outer_cfg = build_config(mask, case["sampler"], "verif/scripted", {"script": outer_script})
    inner_cfg = build_config(inner_mask, "design" if case["sampler"] == "design" else "one", "verif/scripted", {"script": inner_script})
    manager, scripted = make_manager()
    evaluator = TableEvaluator(ensemble_fn(), 1, 1)
    context = OptimizerContext(evaluator=evaluator, plugin_manager=manager)
    events: list[Any] = []
    context.add_observer(EventType.FINISHED_EVALUATION, events.append)
    inner_plan = Plan(context)
    inner_step = inner_plan.add_step("optimizer")
    inner_tracker = inner_plan.add_handler("tracker", sources={inner_step})
    deliveries: list[Any] = []

    def inner_fn(plan: Plan, variables: np.ndarray) -> Any:
        plan.set(inner_tracker, "results", None)
        deliveries.append(("start", np.array(variables), len(events)))
        # every invocation of the inner optimization visits other points, so the values it delivers for the outer
        # step's fixed variables change from one outer request to the next
        shift = 0.125 * (len(deliveries) // 2)
        shifted = [[[p + shift for p in pts], f, g] for pts, f, g in inner_script]
        inner_cfg["optimizer"]["options"] = {"script": shifted}
        plan.run_step(inner_step, config=inner_cfg, variables=variables)
        result = plan.get(inner_tracker, "results")
        deliveries.append(("end", None if result is None else np.array(result.evaluations.variables), len(events)))
        return result

    inner_plan.add_function(inner_fn)
    outer_plan = Plan(context)
    outer_step = outer_plan.add_step("optimizer")
    try:
        code = outer_plan.run_step(outer_step, config=outer_cfg, nested_optimization=inner_plan)
    except Exception as exc:  # noqa: BLE001
        j.fail(f"nested-run-raised:{type(exc).__name__}", message=str(exc)[:200])
        return j
    # walk the event stream with the delivery markers
    expected_outer_fixed = X0[~outer_free].copy()
    current_outer_free: np.ndarray | None = None
    marks = {d[2]: [] for d in deliveries}
    for d in deliveries:
        marks[d[2]].append(d)
    in_inner = False
    n_checked = 0
    for index in range(len(events) + 1):
        for kind, value, _ in marks.get(index, []):
            if kind == "start":
                in_inner = True
                current_outer_free = value[outer_free]
                if not np.array_equal(value[~outer_free], expected_outer_fixed):
                    j.fail("nested:inner-started-from-wrong-fixed-values", observed=value, expected=expected_outer_fixed)
            else:
                in_inner = False
                if value is not None:
                    expected_outer_fixed = value[~outer_free].copy()
                    if current_outer_free is not None and not np.array_equal(value[outer_free], current_outer_free):
                        j.fail("nested:inner-result-moved-outer-variables", observed=value, expected=current_outer_free)
        if index == len(events):
            break
        event = events[index]
        for res in event.data["results"]:
            n_checked += 1
            variables = np.asarray(res.evaluations.variables)
            if event.source == inner_step:
                if current_outer_free is not None and not np.array_equal(variables[outer_free], current_outer_free):
                    j.fail("nested:inner-evaluation-moved-its-fixed-variables", observed=variables, expected=current_outer_free)
                fixed_sel = outer_free
            else:
                if not np.array_equal(variables[~outer_free], expected_outer_fixed):
                    j.fail("nested:outer-fixed-variables-not-last-inner-values", observed=variables, expected=expected_outer_fixed)
                fixed_sel = ~outer_free
            if isinstance(res, GradientResults):
                pv = np.asarray(res.evaluations.perturbed_variables)[..., fixed_sel]
                if not np.array_equal(pv, np.broadcast_to(variables[fixed_sel], pv.shape)):
                    j.fail("nested:fixed-variable-perturbed", source="inner" if event.source == inner_step else "outer")
                if res.gradients is not None:
                    for name in ("weighted_objective", "objectives", "constraints"):
                        arr = getattr(res.gradients, name)
                        if arr is not None and np.any(np.asarray(arr)[..., fixed_sel] != 0.0):
                            j.fail("nested:fixed-variable-gradient-nonzero", field=name)
    # evaluator rows: every row is consistent with some delivered result's variables on all non-perturbable entries is
    # covered by the result checks above (results report exactly the rows: C06)
    j.transitions = len(events)
    j.outcome = f"nested:outer_free={n_outer}:{case['sampler']}:events={min(len(events), 1)}:code={code.name}"
    return j


WIDE_V = 300
WIDE_METHODS = ["norm", "uniform", "sobol", "lhs"]


def judge_wide(case: dict[str, Any]) -> Judgement:
    """Single large instances: 300 variables, fixed ones at low and high positions (with free ones 256 positions later),
    a built-in sampler; every vector the evaluator receives and the reported gradient are judged."""
    from ropt.config.enopt import EnOptConfig
    from ropt.ensemble_evaluator import EnsembleEvaluator
    from ropt.results import GradientResults

    j = Judgement()
    fixed = sorted(set(case["fixed"]))
    mask = np.ones(WIDE_V, dtype=bool)
    mask[fixed] = False
    x0 = (np.arange(WIDE_V) % 7 - 3) * 0.25
    config = EnOptConfig.model_validate({
        "variables": {"initial_values": x0.tolist(), "mask": mask.tolist()},
        "realizations": {"weights": [1.0, 1.0]},
        "gradient": {"number_of_perturbations": 3, "perturbation_magnitudes": 0.25, "seed": 11},
        "samplers": [{"method": case["method"], "shared": case["shared"]}],
    })
    manager, _ = make_manager()
    seen: list[np.ndarray] = []

    def fun(x: np.ndarray, r: int) -> list[float]:
        seen.append(np.array(x, copy=True))
        return [float(x @ (np.arange(WIDE_V) % 5 + 1.0)) + r]

    ens = EnsembleEvaluator(config, None, TableEvaluator(fun, 1, 0), manager)
    for call in range(2):
        res = ens.calculate(x0, compute_functions=True, compute_gradients=True)
        j.transitions += 1
        gres = next(item for item in res if isinstance(item, GradientResults))
        pert = np.asarray(gres.evaluations.perturbed_variables)
        if np.any(pert[..., fixed] != x0[fixed]):
            bad = sorted({int(i) for i in np.argwhere(pert[..., fixed] != x0[fixed])[:, -1]})
            j.fail("wide:fixed-variable-perturbed", call=call, fixed_columns=[fixed[i] for i in bad][:8])
        grads = gres.gradients
        if grads is not None and np.any(np.asarray(grads.objectives)[..., fixed] != 0.0):
            j.fail("wide:fixed-variable-gradient-nonzero", call=call)
        if grads is not None and np.any(np.asarray(grads.weighted_objective)[..., fixed] != 0.0):
            j.fail("wide:fixed-variable-weighted-gradient-nonzero", call=call)
    moved = [k for k, x in enumerate(seen) if np.any(x[fixed] != x0[fixed])]
    if moved:
        j.fail("wide:evaluator-received-moved-fixed-variable", requests=moved[:8])
    free_moved = np.any(np.array(seen)[:, ~np.isin(np.arange(WIDE_V), fixed)] != x0[~np.isin(np.arange(WIDE_V), fixed)])
    j.trivial = not bool(free_moved)
    j.outcome = f"wide/{case['method']}/shared={case['shared']}/nfixed={len(fixed)}"
    return j


def all_masks() -> list[Any]:
    out: list[Any] = [None]
    for bits in itertools.product((True, False), repeat=V):
        if any(bits):
            out.append(list(bits))
    return out


def shards(tier: str, seed: int) -> list[dict[str, Any]]:
    out = []
    for mask in all_masks():
        for sampler in SAMPLERS:
            for scaler in (False, True):
                out.append({"kind": "scripted", "mask": mask, "sampler": sampler, "scaler": scaler, "tier": tier})
    for mask in all_masks():
        for method in ("slsqp", "nelder-mead", "differential_evolution"):
            out.append({"kind": "real", "mask": mask, "method": method, "tier": tier})
    for mask in all_masks():
        if mask is None or all(mask):
            continue
        for sampler in ("one", "design"):
            out.append({"kind": "nested", "mask": mask, "sampler": sampler, "tier": tier})
    out.append({"kind": "wide", "mask": None, "tier": tier})
    return out


def run_shard(shard: dict[str, Any]) -> core.ShardResult:
    rec = Recorder(shard)
    if shard["kind"] == "wide":
        patterns = [list(range(10)), [0, 1, 2, 128, 129, 255, 256, 299], list(range(40, 300, 2))]
        for method in WIDE_METHODS:
            for shared in (False, True):
                for k, fixed in enumerate(patterns):
                    case = {"kind": "wide", "method": method, "shared": shared, "fixed": fixed}
                    rec.add(("w", method, shared, k), case, judge_wide(case))
        return rec.finish()
    mask = shard["mask"]
    key_mask = None if mask is None else tuple(mask)
    if shard["kind"] == "scripted":
        n_fixed = 0 if mask is None else V - sum(mask)
        depth = 4 if shard["tier"] == "thorough" else 3
        for n in range(1, depth + 1):
            for seq in itertools.product(REQUESTS, repeat=n):
                for explicit in (False, True):
                    if explicit and n == depth and depth > 2:
                        continue  # explicit starts: one level shallower
                    case = {"kind": "scripted", "mask": mask, "sampler": shard["sampler"], "scaler": shard["scaler"],
                            "sequence": [list(s) for s in seq], "explicit_start": explicit}
                    rec.add(("s", key_mask, shard["sampler"], shard["scaler"], seq, explicit), case, judge_scripted(case))
                    if n == 1 and not explicit and mask is not None and not all(mask) and not shard["scaler"]:
                        case2 = {**case, "relinf": True}
                        rec.add(("s-relinf", key_mask, shard["sampler"], seq), case2, judge_scripted(case2))
    elif shard["kind"] == "real":
        for sampler in SAMPLERS:
            for scaler in (False, True):
                for explicit in (False, True):
                    for parallel in ((False, True) if shard["method"] == "differential_evolution" else (False,)):
                        case = {"kind": "real", "mask": mask, "method": shard["method"], "sampler": sampler, "scaler": scaler,
                                "explicit_start": explicit, "parallel": parallel}
                        rec.add(("r", key_mask, shard["method"], sampler, scaler, explicit, parallel), case, judge_real(case))
    else:
        depth = 3 if shard["tier"] == "quick" else 4
        for n in range(1, depth + 1):
            for seq in itertools.product(REQUESTS[:6], repeat=n):  # nested optimization does not support batches
                case = {"kind": "nested", "mask": mask, "sampler": shard["sampler"], "sequence": [list(s) for s in seq]}
                rec.add(("n", key_mask, shard["sampler"], seq), case, judge_nested(case))
    return rec.finish()


def run_case(case: dict[str, Any]) -> Judgement:
    case = dict(case)
    if "sequence" in case:
        case["sequence"] = [tuple(s) for s in case["sequence"]]
    return {"scripted": judge_scripted, "real": judge_real, "nested": judge_nested, "wide": judge_wide}[case["kind"]](case)


if __name__ == "__main__":
    sys.exit(core.main(sys.modules[__name__]))
