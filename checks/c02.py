"""C02 - the stochastic gradient is exact on affine ensembles and zero on fixed variables."""

from __future__ import annotations

import itertools
import sys
from typing import Any

import numpy as np

from mc import core, ref
from mc.core import Judgement, Recorder
from mc.harness import AffineEnsemble, TableEvaluator, close, make_manager, make_transforms, validate

PROPERTY = "C02"
RULE = (
    "E1 product enumeration through EnsembleEvaluator.calculate (combined and split paths, and a gradient-only request after functions at a nearby point or at a point that differs in a fixed variable): V x variable mask x R x "
    "realization weights x P x sampler (deterministic designs: axes, table, per-realization rotated, rank-deficient; "
    "built-in norm/uniform/sobol/lhs with two seeds, and two built-in samplers assigned per variable; shared or not) x affine ensemble (distinct / identical realizations; a spot slice with a common level of 2^20 on every realization for the stddev estimator with the dyadic designs) x "
    "estimator map x merge on/off x failure pattern (none, one perturbation, one perturbation with min_success=P, one "
    "realization) x bounds/boundary/magnitude x filter {none, on objective 0 only, on the constraint only} x variable scaler. Reference: exact slope combination "
    "(mean: sum w_r a_r; stddev: chain rule), fixed entries ==0.0, weighted objective gradient = objective-weighted sum. "
    "Trivial: the REPORTED perturbation-difference matrix of a contributing realization (or the stacked one for merged) "
    "misses full column rank with sigma_min^2 >= 1% of total; merged estimation with neither shared perturbations nor "
    "identical realizations; stddev with sigma<1e-6 or <2 positive weights; too few realizations."
)
ASSUMPTIONS = [
    "slopes/offsets/designs are small dyadic rationals; tolerance 1e-7 relative (conditioning bound keeps amplification small)",
    "gradients are compared in optimizer coordinates (slope x scale with a VariableScaler)",
]
BOUNDS = {
    "quick": "V<=2, R<=2, full product of the listed alphabets (bounds none/tight-truncate), plus an R=3 slice for the stddev estimator",
    "thorough": "V<=3 (V=3: no mask + 3 masks, P in {1,3,6}), R<=3, product of the listed alphabets without 'loose' bounds",
}

POOL = np.array(
    [[1.0, -2.0, 0.5], [0.25, 3.0, -1.0], [-1.5, 0.75, 2.0], [2.0, 1.0, -0.25], [-0.5, -1.0, 1.5], [3.0, -0.75, 0.125]]
)
EMAPS = [(0, 0, 0), (0, 1, 0), (0, 0, 1)]  # estimator index per (obj0, obj1, con0)
WEIGHTS = {"uniform": lambda n: [1.0] * n, "ramp": lambda n: [float(i + 1) for i in range(n)],
           "zero": lambda n: [0.0 if i == 0 else float(i) for i in range(n)]}
DESIGNS = ["axes", "table", "rotated", "deficient"]
BUILTIN = ["norm", "uniform", "sobol", "lhs", "two"]  # "two": norm + uniform assigned per variable through gradient.samplers
BOUNDKINDS = ["none", "loose", "tight-trunc", "tight-mirror"]
FAILURES = ["none", "pert", "pert-strict", "real"]


def ensemble(R: int, V: int, kind: str, seed: int) -> AffineEnsemble:
    slopes = np.zeros((R, 3, V))
    offsets = np.zeros((R, 3))
    for r in range(R):
        rr = 0 if kind == "identical" else r
        for f in range(3):
            slopes[r, f] = POOL[(rr * 3 + f * 5 + seed) % len(POOL)][:V]
            offsets[r, f] = 0.5 * rr - 0.25 * f + 1.0 + (0.125 * rr * f)
    if kind == "offset":
        # a common level of 2^20 next to a spread of order one (all values stay exactly representable)
        offsets += 2.0**20
    return AffineEnsemble(slopes, offsets)


def design(kind: str, R: int, P: int, d: int) -> Any:
    if kind == "axes":
        rows = []
        for k in range(P):
            e = np.zeros(d)
            e[k % d] = 1.0 if (k // d) % 2 == 0 else -0.5
            rows.append(e)
        return np.array(rows).tolist()
    if kind == "table":
        return [[((k * 3 + i * 5 + k * i) % 7 - 3) * 0.25 + (0.125 if k == i else 0.0) for i in range(d)] for k in range(P)]
    if kind == "rotated":
        return [[[((k * 3 + i * 5 + r * 2 + k * i) % 7 - 3) * 0.25 + (0.125 if (k + r) % P == i else 0.0) for i in range(d)]
                 for k in range(P)] for r in range(R)]
    if kind == "deficient":
        return [[0.25 * (k + 1)] * d for k in range(P)]
    raise ValueError(kind)


def build(case: dict[str, Any]) -> tuple[dict[str, Any], Any]:
    V, R, P = case["V"], case["R"], case["P"]
    mask = case["mask"]
    d = V if mask is None else sum(mask)
    x0 = [0.25, -0.5, 1.0][:V]
    sampler = case["sampler"]
    if sampler in DESIGNS:
        sconf = {"method": "verif/design", "options": {"design": design(sampler, R, P, d)}, "shared": case["shared"]}
    elif sampler == "two":
        sconf = None
    else:
        sconf = {"method": sampler, "shared": case["shared"]}
    bk = case["bounds"]
    magnitude = 1.0 if bk.startswith("tight") else 0.01
    variables: dict[str, Any] = {"initial_values": x0}
    if mask is not None:
        variables["mask"] = mask
    if bk == "loose":
        variables["lower_bounds"], variables["upper_bounds"] = [-10.0] * V, [10.0] * V
    elif bk.startswith("tight"):
        variables["lower_bounds"] = [x - 0.3 for x in x0]
        variables["upper_bounds"] = [x + 0.2 for x in x0]
    emap = EMAPS[case["emap"]]
    config: dict[str, Any] = {
        "variables": variables,
        "realizations": {"weights": WEIGHTS[case["weights"]](R), "realization_min_success": 1},
        "objectives": {"weights": [1.0, 3.0], "function_estimators": list(emap[:2])},
        "nonlinear_constraints": {"lower_bounds": [0.0], "upper_bounds": [np.inf], "function_estimators": [emap[2]]},
        "function_estimators": [{"method": "mean"}] if case["merge"] else [{"method": "mean"}, {"method": "stddev"}],
        "gradient": {
            "number_of_perturbations": P,
            "perturbation_magnitudes": magnitude,
            "boundary_types": 3 if bk == "tight-mirror" else 2,
            "merge_realizations": case["merge"],
            "seed": 7 + case["gseed"],
            "perturbation_min_success": P if case["failure"] != "pert" else max(1, P - 1),
        },
        "samplers": [sconf] if sconf is not None else [{"method": "norm", "shared": case["shared"]}, {"method": "uniform", "shared": not case["shared"]}],
    }
    if sconf is None:
        config["gradient"]["samplers"] = [0, 1, 0][:V]
    if case["filter"]:
        # "obj": the filter is mapped to objective 0 only; "con": to the constraint only (so that objective and
        # constraint weight rows always differ)
        config["realization_filters"] = [{"method": "sort-objective", "options": {"sort": [0], "first": 0, "last": max(0, R - 2)}}]
        config["objectives"]["realization_filters"] = [0, -1] if case["filter"] == "obj" else [-1, -1]
        config["nonlinear_constraints"]["realization_filters"] = [-1] if case["filter"] == "obj" else [0]
    transforms = None
    if case["scaler"]:
        transforms = make_transforms(var_scales=[2.0, 0.5, 4.0][:V], var_offsets=[1.0, -1.0, 0.0][:V])
    return config, transforms


def well_conditioned(matrix: np.ndarray) -> bool:
    if matrix.shape[0] < matrix.shape[1] or matrix.shape[1] == 0:
        return False
    sigma = np.linalg.svd(matrix, compute_uv=False)
    total = float(np.sum(sigma**2))
    if total <= 0:
        return False
    return bool(sigma.size == matrix.shape[1] and sigma[-1] ** 2 >= 0.01 * total)


def judge(case: dict[str, Any]) -> Judgement:
    from ropt.ensemble_evaluator import EnsembleEvaluator
    from ropt.exceptions import OptimizationAborted
    from ropt.plugins.realization_filter.default import DefaultRealizationFilter
    from ropt.results import FunctionResults, GradientResults

    j = Judgement()
    V, R, P = case["V"], case["R"], case["P"]
    emap = EMAPS[case["emap"]]
    config_dict, transforms = build(case)
    config = validate(config_dict, transforms)
    ens_fn = ensemble(R, V, case["ens"], case["seed"])
    failure = case["failure"]
    fr, fk = (R - 1, P - 1)

    def fail(call: int, row: int, r: int, p: int) -> Any:
        if failure in ("pert", "pert-strict") and r == fr and p == fk:
            return [1]
        if failure == "real" and r == fr and p == -1:
            return [2]
        return None

    manager, _ = make_manager()
    mask = None if case["mask"] is None else np.array(case["mask"], dtype=bool)
    free = np.ones(V, dtype=bool) if mask is None else mask
    scales = np.array([2.0, 0.5, 4.0][:V]) if case["scaler"] else np.ones(V)
    x = np.array(config.variables.initial_values)
    nontrivial = 0
    transitions = 0
    outcome = []

    cw = np.asarray(config.realizations.weights)
    pms_cfg = P if case["failure"] != "pert" else max(1, P - 1)  # as requested in build()
    dead = np.zeros(R, dtype=bool)
    if failure == "real" or (failure in ("pert", "pert-strict") and P - 1 < pms_cfg):
        dead[fr] = True
    alive_certain = bool(np.any((cw > 0) & ~dead)) and not case["filter"]

    for split in (False, True, "near", "fixed-moved"):
        if split == "fixed-moved" and bool(np.all(free)):
            continue
        evaluator = TableEvaluator(ens_fn, 2, 1, fail=fail)
        ens = EnsembleEvaluator(config, transforms, evaluator, manager)
        try:
            if split in ("near", "fixed-moved"):
                # functions at a point 4e-6 (relative) away - or at a point that differs in a FIXED variable only, as
                # after a nested optimization moved it - then a gradient-only request at x: the gradient must be the
                # gradient at x, computed with function values of x (not the ones kept from the other point)
                other = x * (1.0 + 4e-6) if split == "near" else np.where(free, x, x + 0.5)
                ens.calculate(other, compute_functions=True, compute_gradients=False)
                res = ens.calculate(x, compute_functions=False, compute_gradients=True)
                transitions += 2
                gres = next(item for item in res if isinstance(item, GradientResults))
                x_user = x if transforms is None else transforms.variables.from_optimizer(x)
                near_f = np.array([ens_fn(np.asarray(x_user), r) for r in range(R)], dtype=np.float64)
                if failure == "real":
                    near_f[fr, :] = np.nan
                fres = None
            elif split:
                (fres,) = ens.calculate(x, compute_functions=True, compute_gradients=False)
                (gres,) = ens.calculate(x, compute_functions=False, compute_gradients=True)
                transitions += 2
            else:
                fres, gres = ens.calculate(x, compute_functions=True, compute_gradients=True)
                transitions += 1
        except OptimizationAborted as exc:
            outcome.append(f"abort:{exc.exit_code.name}")
            continue  # aborts are judged by C03/C14
        except Exception as exc:  # noqa: BLE001
            outcome.append(f"exception:{type(exc).__name__}")
            # Only judged when a positive-weight realization certainly survives (otherwise no value is defined
            # and the way the evaluation fails belongs to C14).
            if alive_certain:
                j.fail(f"unexpected-exception:{type(exc).__name__}", split=split)
            continue
        assert isinstance(gres, GradientResults)
        if gres.gradients is None:
            outcome.append("no-gradients")
            continue
        tag = split if isinstance(split, str) else ("split" if split else "combined")
        # ---- reference, from what was reported ---------------------------------
        if fres is None:
            fvals = near_f
        else:
            fvals = np.hstack([fres.evaluations.objectives, fres.evaluations.constraints])  # (R,3) optimizer domain == user domain
        pvals = np.concatenate([gres.evaluations.perturbed_objectives, gres.evaluations.perturbed_constraints], axis=-1)  # (R,P,3)
        failed_f = np.isnan(fvals[:, 0])
        pert_ok = ~np.isnan(pvals[..., 0])  # (R,P)
        pms = pms_cfg
        failed_g = failed_f | (pert_ok.sum(axis=1) < pms)
        delta = (np.asarray(gres.evaluations.perturbed_variables) - np.asarray(gres.evaluations.variables))[..., free]  # (R,P,d)
        # filter weights (from the function values at x)
        fweights = None
        if case["filter"]:
            try:
                fweights = np.array(DefaultRealizationFilter(config, 0).get_realization_weights(fvals[:, :2].copy(), fvals[:, 2:].copy()))
            except OptimizationAborted:
                outcome.append("filter-abort")
                continue
        fmap = {False: (-1, -1, -1), "obj": (0, -1, -1), "con": (-1, -1, 0)}[case["filter"]]
        grads_obs = [np.asarray(gres.gradients.objectives)[0], np.asarray(gres.gradients.objectives)[1], np.asarray(gres.gradients.constraints)[0]]
        expected_all: list[Any] = [None] * 3
        for f in range(3):
            obs = grads_obs[f]
            if np.any(obs[~free] != 0.0):
                j.fail("fixed-variable-gradient-nonzero", tag=tag, function=f, observed=obs)
            base = config.realizations.weights if fmap[f] < 0 else fweights
            w = ref.norm_weights(base, failed_g)
            if w is None:
                continue
            active = [r for r in range(R) if w[r] > 0]
            if emap[f] == 1 and len(active) < 2:
                continue
            # conditioning precondition on the reported matrices
            if case["merge"]:
                same_pert = all(np.array_equal(delta[r][pert_ok[r]], delta[active[0]][pert_ok[active[0]]]) for r in active) and \
                    all(np.array_equal(pert_ok[r], pert_ok[active[0]]) for r in active)
                if not (case["ens"] == "identical" or same_pert):
                    continue
                stacked = np.vstack([delta[r][pert_ok[r]] for r in active])
                weighted = np.vstack([np.sqrt(w[r]) * delta[r][pert_ok[r]] for r in active])
                if not (well_conditioned(stacked) and well_conditioned(weighted)):
                    continue
            else:
                if not all(well_conditioned(delta[r][pert_ok[r]]) for r in active):
                    continue
            slopes = ens_fn.slopes[:, f, :][:, free] * scales[free]  # (R,d) optimizer coordinates
            if emap[f] == 0:
                expected = sum(w[r] * slopes[r] for r in active)
            else:
                vals = np.where(failed_g, 0.0, fvals[:, f])
                sigma = ref.stddev(vals, w)
                if sigma is None or sigma < 1e-6:
                    continue
                m = ref.mean(vals, w)
                abar = sum(w[r] * slopes[r] for r in active)
                n_pos = len(active)
                expected = (n_pos / (n_pos - 1)) / sigma * sum(w[r] * (vals[r] - m) * (slopes[r] - abar) for r in active)
            expected_all[f] = expected
            nontrivial += 1
            if not close(obs[free], expected, 1e-7):
                est = "mean" if emap[f] == 0 else "stddev"
                kind = "merged" if case["merge"] else "per-realization"
                ratio = None
                with np.errstate(all="ignore"):
                    rr = obs[free] / expected
                    if np.all(np.isfinite(rr)) and np.allclose(rr, rr[0], rtol=1e-6):
                        ratio = float(rr[0])
                sig = f"gradient-mismatch:{est}:{kind}"
                if case["merge"]:
                    # prediction of "weights applied to the function differences only":
                    # g = (sum_r D_r^T D_r)^+ sum_r w_r D_r^T D_r a_r
                    lhs = sum(delta[r][pert_ok[r]].T @ delta[r][pert_ok[r]] for r in active)
                    rhs = sum(w[r] * delta[r][pert_ok[r]].T @ delta[r][pert_ok[r]] @ slopes[r] for r in active)
                    pred = np.linalg.pinv(lhs) @ rhs
                    if close(obs[free], pred, 1e-6):
                        sig = "merged-gradient-weights-on-function-differences-only"
                j.fail(sig, tag=tag, function=f, observed=obs[free], expected=expected, ratio=ratio, active=len(active))
        if expected_all[0] is not None and expected_all[1] is not None:
            ow = np.asarray(config.objectives.weights)
            exp_w = ow[0] * expected_all[0] + ow[1] * expected_all[1]
            obs_w = np.asarray(gres.gradients.weighted_objective)
            if np.any(obs_w[~free] != 0.0):
                j.fail("fixed-variable-gradient-nonzero", tag=tag, function="weighted", observed=obs_w)
            # judged relative to the observed objective gradients so that one defect gives one signature
            if not close(obs_w[free], ow[0] * grads_obs[0][free] + ow[1] * grads_obs[1][free], 1e-9):
                j.fail("weighted-objective-gradient-not-weighted-sum", tag=tag, observed=obs_w[free], expected=exp_w)
        outcome.append("judged")
    j.transitions = transitions
    j.trivial = nontrivial == 0
    j.outcome = f"{'+'.join(outcome)}/nontrivial={min(nontrivial, 1)}/merge={case['merge']}/fail={failure}"
    return j


def masks_for(V: int) -> list[Any]:
    out: list[Any] = [None]
    for bits in itertools.product((True, False), repeat=V):
        if any(bits):
            out.append(list(bits))
    return out


def shards(tier: str, seed: int) -> list[dict[str, Any]]:
    out = []
    vmax, rmax = (2, 2) if tier == "quick" else (3, 3)
    for V in range(1, vmax + 1):
        for mask in masks_for(V):
            if V == 3 and mask is not None and mask not in ([True, False, True], [False, True, False], [True, True, False]):
                continue  # V=3: no mask and three of the seven masks (all seven are exercised for V<=2 and by C09)
            for R in range(1, rmax + 1):
                if tier == "quick" and mask is not None and all(mask):
                    continue  # same behaviour as mask None; kept in thorough
                for P in sorted({1, V, V + 1, 2 * V}):
                    if tier == "quick" and P == 4:
                        continue
                    if tier == "thorough" and V == 3 and P == 4:
                        continue
                    for sampler in DESIGNS + BUILTIN:
                        if tier == "quick" and sampler in ("uniform", "lhs"):
                            continue
                        if sampler == "two" and V < 2:
                            continue
                        out.append({"V": V, "mask": mask, "R": R, "P": P, "sampler": sampler, "tier": tier, "seed": seed})
    if tier == "quick":
        # a slice with three realizations (stddev needs two survivors after one realization is dropped)
        for P in (1, 2):
            for sampler in ("axes", "table", "norm"):
                out.append({"V": 1, "mask": None, "R": 3, "P": P, "sampler": sampler, "tier": tier, "seed": seed, "slice": "stddev3"})
    return out


def run_shard(shard: dict[str, Any]) -> core.ShardResult:
    rec = Recorder(shard)
    V, R, P, sampler, tier = shard["V"], shard["R"], shard["P"], shard["sampler"], shard["tier"]
    wnames = ["uniform"] if R == 1 else (["uniform", "ramp", "zero"] if R > 2 or tier == "thorough" else ["ramp", "zero"])
    gseeds = (0, 1) if sampler in BUILTIN else (0,)
    shareds = (False, True)
    if sampler == "rotated":
        shareds = (False,)
    for wname, shared, gseed, ens_kind, emap, merge, failure, bounds, flt, scaler in itertools.product(
        wnames, shareds, gseeds, ("distinct", "identical", "offset"), range(3), (False, True), FAILURES, BOUNDKINDS, (False, "obj", "con"), (False, True)
    ):
        if merge and emap != 0:
            continue  # stddev does not support merging (ConfigError by design)
        if shard.get("slice") == "stddev3" and (emap == 0 or merge or bounds != "none" or flt == "con" or scaler or ens_kind != "distinct"):
            continue
        if ens_kind == "offset" and (sampler not in ("axes", "table") or emap == 0 or merge or bounds != "none" or flt or scaler):
            continue  # the large common level is a spot slice: stddev estimator, dyadic designs, plain configuration
        if flt and R == 1:
            continue
        if tier == "quick" and (bounds in ("loose", "tight-mirror") or gseed == 1):
            continue
        if tier == "quick" and flt == "con" and scaler:
            continue
        if tier == "thorough" and (bounds == "loose" or (wname == "uniform" and R > 1 and flt)):
            continue
        if sampler in BUILTIN and tier == "quick" and (gseed == 1 and shared):
            continue
        case = {"V": V, "mask": shard["mask"], "R": R, "P": P, "sampler": sampler, "weights": wname, "shared": shared,
                "gseed": gseed, "ens": ens_kind, "emap": emap, "merge": merge, "failure": failure, "bounds": bounds,
                "filter": flt, "scaler": scaler, "seed": shard["seed"]}
        j = judge(case)
        key = (V, None if shard["mask"] is None else tuple(shard["mask"]), R, P, sampler, wname, shared, gseed, ens_kind, emap, merge,
               failure, bounds, flt, scaler)
        rec.add(key, case, j)
    return rec.finish()


def run_case(case: dict[str, Any]) -> Judgement:
    return judge(case)


if __name__ == "__main__":
    sys.exit(core.main(sys.modules[__name__]))
