"""C17 - samplers obey the perturbation-sample contract, including QMC point integrity."""

from __future__ import annotations

import copy
import itertools
import sys
from typing import Any

import numpy as np

from mc import core
from mc.core import Judgement, Recorder
from mc.harness import TableEvaluator, make_manager, validate

PROPERTY = "C17"
RULE = (
    "E1 product enumeration on the real SciPy sampler plug-in (created through the plug-in manager) and through "
    "GradientEvaluations.perturbed_variables: method (all six) x R in 1..3 x P in {1,2,4,8} x V in 1..3 x EVERY variable mask x "
    "EVERY assignment of two samplers to the variables (second sampler = a different method) x shared on/off x seeds x 3 "
    "consecutive calls x (stats methods) with/without an earlier sampler of the same method that was given explicit "
    "distribution parameters. Oracle: shape (R,P,V); unhandled columns == 0.0; shared => all realizations identical, else not all "
    "identical; bounded methods within [-1,1]; QMC (single sampler): the multiset of generated rows equals the points "
    "2u-1 of a reference engine seeded identically, call after call; LHS: per handled variable the points of a call occupy "
    "distinct strata. Beyond the small space: per method single large instances (R,P) in {(10,30),(1,130),(2,129)}, V=3, two masks x two assignments x shared on/off, same oracle. A case is trivial when the sampler handles no variable."
)
ASSUMPTIONS = [
    "default sampler options; scipy.stats.qmc engines are trusted (they are the reference)",
    "the point-set reference is only applied when the QMC sampler is the only consumer of the generator",
    "'not all identical' relies on continuous distributions / scrambled sequences (probability-zero coincidences ignored)",
]
BOUNDS = {"quick": "R<=3, P in {1,2,4,8}, V<=3, 2 seeds; + 3 large spot shapes per method (up to 300 points per request)", "thorough": "R<=3, P in {1,2,4,8}, V<=3, 4 seeds; + 3 large spot shapes per method, 2 seeds"}
METHODS = ["norm", "uniform", "truncnorm", "sobol", "halton", "lhs"]
QMC = {"sobol", "halton", "lhs"}
BOUNDED = {"uniform", "truncnorm", "sobol", "halton", "lhs"}
EXPLICIT = {"uniform": {"loc": 0.0, "scale": 4.0}, "truncnorm": {"a": -3.0, "b": 3.0}, "norm": {"loc": 5.0, "scale": 2.0}}


def engine(method: str, dim: int, rng: Any) -> Any:
    from scipy.stats.qmc import Halton, LatinHypercube, Sobol

    return {"sobol": Sobol, "halton": Halton, "lhs": LatinHypercube}[method](dim, seed=rng)


def rows_sorted(mat: np.ndarray) -> np.ndarray:
    mat = np.asarray(mat, dtype=np.float64).reshape(-1, mat.shape[-1])
    order = np.lexsort(mat.T[::-1])
    return mat[order]


def handled_mask(V: int, mask: Any, assign: Any, idx: int) -> np.ndarray:
    free = np.ones(V, dtype=bool) if mask is None else np.array(mask, dtype=bool)
    if assign is None:
        return free
    return free & (np.array(assign) == idx)


def judge(case: dict[str, Any]) -> Judgement:
    import warnings

    from numpy.random import default_rng

    from ropt.ensemble_evaluator import EnsembleEvaluator
    try:  # only to mirror how masks reach the plug-in; a private helper, so its absence is not an error
        from ropt.ensemble_evaluator._ensemble_evaluator import _get_mask
    except ImportError:
        _get_mask = None
    from ropt.results import GradientResults

    j = Judgement()
    method, R, P, V = case["method"], case["R"], case["P"], case["V"]
    mask, assign, shared, seed = case["mask"], case["assign"], case["shared"], case["gseed"]
    other = METHODS[(METHODS.index(method) + 2) % len(METHODS)]
    sconfs = [{"method": method, "shared": shared}]
    if assign is not None:
        sconfs.append({"method": other, "shared": not shared})
    variables: dict[str, Any] = {"initial_values": [0.5] * V}
    if mask is not None:
        variables["mask"] = mask
    config_dict: dict[str, Any] = {
        "variables": variables,
        "realizations": {"weights": [1.0] * R},
        "gradient": {"number_of_perturbations": P, "seed": seed, "perturbation_magnitudes": 0.25, "boundary_types": 1},
        "samplers": sconfs,
    }
    if assign is not None:
        config_dict["gradient"]["samplers"] = assign
    config = validate(config_dict)
    manager, _ = make_manager()
    hm = handled_mask(V, mask, assign, 0)
    dim = int(hm.sum())
    if _get_mask is not None:
        arg_mask = _get_mask(0, config.gradient.samplers, config.variables.mask)
        if arg_mask is not None and not np.array_equal(np.asarray(arg_mask, dtype=bool), hm):
            j.fail("handled-variable-mask", observed=arg_mask, expected=hm)
    else:
        arg_mask = None if (mask is None and assign is None) else hm
    with warnings.catch_warnings():
        warnings.simplefilter("ignore")
        if case.get("sibling"):
            # An earlier sampler of the same method with explicit distribution parameters, in the same process: the
            # defaults of the sampler under test ("within [-1, 1] by default") must not depend on it.
            sib_dict = copy.deepcopy(config_dict)
            sib_dict["samplers"] = [dict(sc) for sc in sconfs]
            sib_dict["samplers"][0]["options"] = dict(EXPLICIT[method])
            sib_config = validate(sib_dict)
            sib = manager.get_plugin("sampler", method=method).create(sib_config, 0, arg_mask, default_rng(seed))
            sib_samples = np.asarray(sib.generate_samples())
            j.transitions += 1
            if dim and method == "uniform" and (sib_samples[..., hm].min() < 0.0 or sib_samples[..., hm].max() > 4.0):
                j.fail("explicit-options-not-honoured", method=method)
            if sib_config.samplers[0].options != EXPLICIT[method]:
                j.fail("sampler-options-in-config-changed", observed=sib_config.samplers[0].options)
        rng = default_rng(config.gradient.seed)
        sampler = manager.get_plugin("sampler", method=method).create(config, 0, arg_mask, rng)
        single = assign is None
        ref_engine = engine(method, dim, default_rng(config.gradient.seed)) if (method in QMC and single) else None
        n_draw = (1 if shared else R) * P
        for call in range(3):
            samples = np.asarray(sampler.generate_samples())
            j.transitions += 1
            tag = f"{method}:call{call}"
            if samples.shape != (R, P, V):
                j.fail("shape", tag=tag, observed=samples.shape, expected=(R, P, V))
                break
            if np.any(samples[..., ~hm] != 0.0):
                j.fail("unhandled-column-nonzero", tag=tag, handled=hm)
            block = samples[..., hm].copy()
            # The consumer owns the returned array (the ensemble evaluator accumulates other samplers' output into it
            # in place): scribbling on it must not influence what later calls return.
            if samples.flags.writeable:
                samples += 7.0
            if dim == 0:
                continue
            identical = all(np.array_equal(block[r], block[0]) for r in range(R))
            if shared and not identical:
                j.fail("shared-not-identical", tag=tag)
            if not shared and R > 1 and identical:
                j.fail("not-shared-but-identical", tag=tag)
            if method in BOUNDED and (np.any(block < -1.0) or np.any(block > 1.0)):
                j.fail("out-of-[-1,1]", tag=tag, lo=float(block.min()), hi=float(block.max()))
            if ref_engine is not None:
                ref_points = ref_engine.random(n_draw) * 2.0 - 1.0
                got = block[0] if shared else block.reshape(-1, dim)
                if not np.allclose(rows_sorted(got), rows_sorted(ref_points), rtol=0, atol=1e-14):
                    j.fail(f"qmc-points-not-sequence-points:{'V1' if dim == 1 else 'V>1'}", tag=tag,
                           observed=rows_sorted(got)[:3], expected=rows_sorted(ref_points)[:3])
            if method == "lhs":
                got = block[0] if shared else block.reshape(-1, dim)
                n = got.shape[0]
                for col in range(dim):
                    strata = np.floor((got[:, col] + 1.0) / 2.0 * n).astype(int)
                    strata = np.clip(strata, 0, n - 1)
                    if len(set(strata.tolist())) != n:
                        j.fail("lhs-stratification", tag=tag, column=col, strata=sorted(strata.tolist()), n=n)
                        break
        # through the ensemble evaluator: perturbed - x = magnitude * (sum of the samplers' samples)
        if case["e2e"] and (mask is None or any(mask)):
            evaluator = TableEvaluator(lambda x, r: [float(x.sum())], 1, 0)
            ens = EnsembleEvaluator(config, None, evaluator, manager)
            x = np.array(config.variables.initial_values)
            res = ens.calculate(x, compute_functions=True, compute_gradients=True)
            j.transitions += 1
            gres = next(item for item in res if isinstance(item, GradientResults))
            delta = (np.asarray(gres.evaluations.perturbed_variables) - x) / 0.25
            free = np.ones(V, dtype=bool) if mask is None else np.array(mask, dtype=bool)
            if np.any(delta[..., ~free] != 0.0):
                j.fail("e2e-fixed-variable-perturbed", mask=mask)
            # two more gradient evaluations on the same evaluator: the contract holds call after call
            for extra in (1, 2):
                res_n = ens.calculate(x, compute_functions=True, compute_gradients=True)
                j.transitions += 1
                g_n = next(item for item in res_n if isinstance(item, GradientResults))
                d_n = (np.asarray(g_n.evaluations.perturbed_variables) - x) / 0.25
                if np.any(d_n[..., ~free] != 0.0):
                    j.fail("e2e-fixed-variable-perturbed:later-evaluation", mask=mask, call=extra)
                both_bounded = method in BOUNDED and (assign is None or other in BOUNDED)
                if both_bounded and (np.any(d_n < -1.0 - 1e-12) or np.any(d_n > 1.0 + 1e-12)):
                    j.fail("e2e-bounded-samples-out-of-range:later-evaluation", call=extra, lo=float(d_n.min()), hi=float(d_n.max()))
                if assign is not None and dim:
                    blk = d_n[..., hm]
                    ident = all(np.array_equal(blk[r], blk[0]) for r in range(R))
                    if shared and not ident:
                        j.fail("e2e-shared-not-identical:later-evaluation", call=extra)
            if dim:
                # the first call of an identically seeded sampler (same creation order) gives the same block
                rng2 = default_rng(config.gradient.seed)
                s0 = manager.get_plugin("sampler", method=method).create(config, 0, arg_mask, rng2)
                if assign is not None:
                    m1 = (_get_mask(1, config.gradient.samplers, config.variables.mask) if _get_mask is not None
                          else handled_mask(V, mask, assign, 1))
                    manager.get_plugin("sampler", method=other).create(config, 1, m1, rng2)
                first = 0 if assign is None else next((a for a in assign if a >= 0), 0)
                if first == 0:
                    expect = np.asarray(s0.generate_samples())[..., hm]
                    if not np.allclose(delta[..., hm], expect, rtol=0, atol=1e-12):
                        j.fail("e2e-perturbation-not-sampler-output", assign=assign)
    j.trivial = dim == 0
    j.outcome = f"{method}/dim={dim}/shared={shared}/single={assign is None}/sibling={bool(case.get('sibling'))}"
    return j


def shards(tier: str, seed: int) -> list[dict[str, Any]]:
    rmax = 3
    ps = (1, 2, 4, 8)
    out = []
    for method in METHODS:
        for R in range(1, rmax + 1):
            for P in ps:
                for V in (1, 2, 3):
                    out.append({"method": method, "R": R, "P": P, "V": V, "tier": tier, "seed": seed})
        # single large instances next to the exhaustive small space (more than 128 / 256 points in one request)
        for R, P in ((10, 30), (1, 130), (2, 129)):
            out.append({"method": method, "R": R, "P": P, "V": 3, "tier": tier, "seed": seed, "large": 1})
    return out


def run_shard(shard: dict[str, Any]) -> core.ShardResult:
    rec = Recorder(shard)
    V = shard["V"]
    masks: list[Any] = [None] + [list(b) for b in itertools.product((True, False), repeat=V) if not all(b)]
    assigns: list[Any] = [None] + [list(a) for a in itertools.product((0, 1), repeat=V)]
    seeds = [3 + shard["seed"], 4 + shard["seed"]] + ([11, 12 + shard["seed"]] if shard["tier"] == "thorough" else [])
    if shard.get("large"):
        masks, assigns = [None, [True, False, True]], [None, [0, 1, 0]]
        seeds = seeds[:1] if shard["tier"] != "thorough" else seeds[:2]
    for mask in masks:
        for assign in assigns:
            for shared in (False, True):
                for gseed in seeds:
                    for sibling in ((False, True) if shard["method"] in EXPLICIT and gseed == seeds[0] else (False,)):
                        case = {"method": shard["method"], "R": shard["R"], "P": shard["P"], "V": V, "mask": mask,
                                "assign": assign, "shared": shared, "gseed": gseed, "e2e": gseed == seeds[0],
                                "sibling": sibling}
                        j = judge(case)
                        rec.add((shard["method"], shard["R"], shard["P"], V, None if mask is None else tuple(mask),
                                 None if assign is None else tuple(assign), shared, gseed, sibling), case, j)
    return rec.finish()


def run_case(case: dict[str, Any]) -> Judgement:
    return judge(case)


if __name__ == "__main__":
    sys.exit(core.main(sys.modules[__name__]))
