"""C07 - values handed to the optimizer match the ensemble for any request order."""

from __future__ import annotations

import contextlib
import itertools
import sys
from typing import Any

import numpy as np

from mc import core
from mc.core import Judgement, Recorder
from mc.harness import AffineEnsemble, TableEvaluator, close, make_manager, scipy_entry_points, validate

PROPERTY = "C07"
RULE = (
    "E4 bounded-depth operation-sequence enumeration through the REAL SciPyOptimizer + EnsembleOptimizer + "
    "EnsembleEvaluator, with scipy's minimize / differential_evolution replaced (in the plug-in module namespace) by a "
    "scripted driver that invokes the handed callables in an enumerated order: ALL sequences up to the depth over "
    "{objective, gradient, constraint value k, constraint Jacobian k} x {A, B (just beyond the 1e-3(1+|x|) separation), "
    "C}, for every combination of speculative / split_evaluations, constraint sets {none, two-sided non-linear, "
    "non-linear + linear, linear only}, method names in lower case and as mixed-case Plug-in/Method, method classes gradient-based (slsqp), gradient-free (cobyla), population (differential "
    "evolution, scalar and vectorized batches incl. shape changes at the same leading point). No state merging (the "
    "plug-in has hidden caches). Oracle: every returned value equals the value a fresh stack returns when asked only "
    "that request at that point; evaluator log: per visit of a point at most one function and one gradient evaluation, "
    "no gradient evaluation for gradient-free/population methods, no combined evaluation with split_evaluations. "
    "Masked layer: V=2 with the second variable fixed; the fixed value changes by a second start() of the same optimizer (same free value, other fixed value) or at every call-back (as a nested optimization does): every answer for which an evaluation was made equals the fresh-stack value at the completed point, and the first request after a restart is never served without an evaluation. Every sequence is non-trivial."
)
ASSUMPTIONS = [
    "quadratic ensemble + shared deterministic design sampler: the ensemble value and gradient are pure functions of x",
    "comparison tolerance 1e-12 relative (same arithmetic on both sides)",
]
BOUNDS = {"quick": "depth 3 (depth 4 for the unconstrained alphabet)", "thorough": "depth 4 (depth 5 for the unconstrained alphabet)"}

POINTS = {"A": np.array([0.5, -0.25])}
POINTS["B"] = POINTS["A"] + 2e-3 * (1 + np.abs(POINTS["A"]))
POINTS["C"] = np.array([-1.0, 2.0])
CONSETS = ["none", "nl", "nl+lin", "lin"]  # plus "nl2+lin" (two non-linear constraints) for the population method
SPELLING = {"slsqp": "SciPy/SLSQP", "cobyla": "scipy/COBYLA", "differential_evolution": "scipy/Differential_Evolution"}


def ensemble_fn(n_fun: int = 2) -> AffineEnsemble:
    slopes = np.array([[[1.0, -2.0], [0.5, 1.5], [-1.5, 0.75]], [[-0.75, 0.25], [2.0, -1.0], [0.25, 1.25]]])  # (R=2, F<=3, V=2)
    offsets = np.array([[0.5, -1.0, 0.125], [1.25, 0.75, -0.5]])
    return AffineEnsemble(slopes[:, :n_fun, :], offsets[:, :n_fun], quad=[0.5, -0.25, 0.375][:n_fun])


def build_config(method: str, conset: str, spec: bool, split: bool, parallel: bool, spelled: bool = False,
                 failing: bool = False) -> dict[str, Any]:
    method_string = SPELLING[method] if spelled else method
    config: dict[str, Any] = {
        "variables": ({"initial_values": POINTS["A"].tolist()} if method == "cobyla" else
                      {"initial_values": POINTS["A"].tolist(), "lower_bounds": [-5.0, -5.0], "upper_bounds": [5.0, 5.0]}),
        "realizations": {"weights": [1.0, 2.0]},
        "optimizer": {"method": method_string, "speculative": spec, "split_evaluations": split, "parallel": parallel},
        "gradient": {"number_of_perturbations": 3, "perturbation_magnitudes": 0.25},
        "samplers": [{"method": "verif/design", "options": {"design": [[1.0, 0.0], [0.0, 1.0], [-0.5, 0.5]]}, "shared": True}],
    }
    if conset in ("nl", "nl+lin"):
        config["nonlinear_constraints"] = {"lower_bounds": [-1.0], "upper_bounds": [3.0]}
    if conset == "nl2+lin":
        config["nonlinear_constraints"] = {"lower_bounds": [-1.0, -2.0], "upper_bounds": [3.0, 6.0]}
    if conset in ("nl+lin", "lin", "nl2+lin"):
        config["linear_constraints"] = {"coefficients": [[1.0, 2.0]], "lower_bounds": [-np.inf], "upper_bounds": [4.0]}
    if failing:
        # one realization always loses a perturbation: it fails for gradients (perturbation_min_success = all), never
        # for function values
        config["realizations"]["realization_min_success"] = 1
    return config


class Stack:
    """A fresh real stack; `run(script)` drives it through the patched scipy entry point."""

    def __init__(self, method: str, conset: str, spec: bool, split: bool, parallel: bool = False, spelled: bool = False,
                 failing: bool = False) -> None:
        from ropt.ensemble_evaluator import EnsembleEvaluator
        from ropt.optimization import EnsembleOptimizer

        self.method = method
        self.config = validate(build_config(method, conset, spec, split, parallel, spelled, failing))
        self.manager, _ = make_manager()
        self.n_con = {"nl": 1, "nl+lin": 1, "nl2+lin": 2}.get(conset, 0)
        fail = (lambda call, row, r, p: [0] if (r == 1 and p == 0) else None) if failing else None
        self.evaluator = TableEvaluator(ensemble_fn(max(2, 1 + self.n_con)), 1, self.n_con, fail=fail)
        self.ens = EnsembleEvaluator(self.config, None, self.evaluator, self.manager)
        self.opt = EnsembleOptimizer(self.config, self.ens, self.manager)
        self.answers: list[Any] = []
        self.n_rows = 0
        self.error: str | None = None

    def run(self, script: list[Any]) -> "Stack":
        import ropt.plugins.optimizer.scipy as plugin

        buffers: dict[Any, np.ndarray] = {}

        def reuse(value: np.ndarray) -> np.ndarray:
            # like SciPy's algorithms, the driver keeps ONE array per shape and overwrites it in place for every request:
            # whatever the plug-in keeps of a request must be a copy
            buf = buffers.setdefault(value.shape, np.empty(value.shape))
            buf[...] = value
            return buf

        def do(request: Any, fun: Any, jac: Any, constraints: Any) -> Any:
            kind = request[0]
            if self.method == "differential_evolution":
                pts = request[1]
                if isinstance(pts, str):
                    x = reuse(POINTS[pts])
                else:
                    x = reuse(np.stack([POINTS[p] for p in pts], axis=1))  # (d, n) as scipy's vectorized DE passes it
                if kind == "f":
                    return np.array(fun(x), copy=True)
                nl = [c for c in constraints if hasattr(c, "fun")]
                return np.array(nl[0].fun(x), copy=True)
            x = reuse(POINTS[request[-1]])
            if kind == "f":
                return np.array(fun(x), copy=True)
            if kind == "g":
                return np.array(jac(x), copy=True)
            # "constraint k" = the k-th callable that was handed over (modulo how many there are: how the plug-in groups
            # its normalized constraints into callables is its own business)
            handed = constraints[request[1] % len(constraints)]
            if kind == "c":
                return np.array(handed["fun"](x), copy=True)
            return np.array(handed["jac"](x), copy=True)

        def driver_min(*, fun: Any, x0: Any, jac: Any = None, constraints: Any = (), **kwargs: Any) -> None:
            self.n_rows = len(constraints)
            for request in script:
                self.answers.append(do(request, fun, jac, constraints))

        def driver_de(*, func: Any, x0: Any, constraints: Any = (), **kwargs: Any) -> None:
            for request in script:
                self.answers.append(do(request, func, None, constraints))

        with scipy_entry_points(driver_min, driver_de):
            try:
                self.opt.start(np.array(self.config.variables.initial_values))
            except Exception as exc:  # noqa: BLE001
                self.error = f"{type(exc).__name__}: {str(exc)[:150]}"
        return self

    def evaluations(self) -> list[tuple[bytes, bool, bool]]:
        """(point bytes of the unperturbed/first row, has functions, has gradients) per evaluator call."""
        out = []
        for call in self.evaluator.calls:
            if call.perturbations is None:
                out.append((call.variables[0].tobytes(), True, False))
            else:
                has_f = bool(np.any(call.perturbations < 0))
                out.append((b"", has_f, True))
        return out


# ---------------------------------------------------------------- masked variables: restarts and nested optimization

FREE_POINTS = {"A": 0.5, "B": 0.5 + 2e-3 * 1.5, "C": -1.0}
FIXED_VALUES = [-0.25, 1.5, 2.25, 3.0, 3.75, 4.5, 5.25, 6.0, 6.75]


class MaskedStack:
    """V=2 with the second variable fixed; slsqp with a non-linear constraint. The fixed variable changes either by a
    second start() of the same optimizer, or - as a nested optimization would do it - at every call-back."""

    def __init__(self, spec: bool, split: bool, y0: float, moving: bool) -> None:
        from types import SimpleNamespace

        from ropt.ensemble_evaluator import EnsembleEvaluator
        from ropt.optimization import EnsembleOptimizer

        config = build_config("slsqp", "nl", spec, split, False)
        config["variables"] = {"initial_values": [FREE_POINTS["A"], y0], "mask": [True, False], "lower_bounds": [-5.0, -9.0], "upper_bounds": [5.0, 9.0]}
        config["samplers"] = [{"method": "verif/design", "options": {"design": [[1.0], [-0.5], [0.25]]}, "shared": True}]
        self.config = validate(config)
        self.manager, _ = make_manager()
        self.y_now = y0
        self.y_at_call: list[float] = []
        self.evaluator = TableEvaluator(ensemble_fn(2), 1, 1, hook=lambda index, evaluator: self.y_at_call.append(self.y_now))
        self.ens = EnsembleEvaluator(self.config, None, self.evaluator, self.manager)
        self.nested_calls = 0
        stack = self

        def nested(variables: np.ndarray) -> Any:
            stack.nested_calls += 1
            stack.y_now = FIXED_VALUES[min(stack.nested_calls, len(FIXED_VALUES) - 1)]
            moved = np.array(variables, dtype=np.float64, copy=True)
            moved[1] = stack.y_now
            return SimpleNamespace(evaluations=SimpleNamespace(variables=moved)), False

        self.opt = EnsembleOptimizer(self.config, self.ens, self.manager, nested_optimizer=nested if moving else None)
        self.answers: list[Any] = []
        self.calls_before: list[int] = []
        self.error: str | None = None

    def run(self, script: list[Any], start: list[float] | None = None) -> "MaskedStack":
        buffer = np.empty(1)

        def do(request: Any, fun: Any, jac: Any, constraints: Any) -> Any:
            buffer[0] = FREE_POINTS[request[-1]]
            kind = request[0]
            if kind == "f":
                return np.array(fun(buffer), copy=True)
            if kind == "g":
                return np.array(jac(buffer), copy=True)
            handed = constraints[request[1] % len(constraints)]
            return np.array(handed["fun" if kind == "c" else "jac"](buffer), copy=True)

        def driver(*, fun: Any, x0: Any, jac: Any = None, constraints: Any = (), **kwargs: Any) -> None:
            for request in script:
                self.calls_before.append(len(self.evaluator.calls))
                self.answers.append(do(request, fun, jac, constraints))

        with scipy_entry_points(driver):
            try:
                if start is not None:
                    self.y_now = start[1]
                self.opt.start(np.array(self.config.variables.initial_values if start is None else start))
            except Exception as exc:  # noqa: BLE001
                self.error = f"{type(exc).__name__}: {str(exc)[:150]}"
        return self


_FRESH_MASKED: dict[Any, Any] = {}


def fresh_masked(request: Any, y: float) -> Any:
    key = (repr(request), y)
    if key not in _FRESH_MASKED:
        stack = MaskedStack(False, False, y, False).run([request])
        _FRESH_MASKED[key] = stack.answers[0] if stack.error is None and stack.answers else ("error", stack.error)
    return _FRESH_MASKED[key]


def judge_masked(case: dict[str, Any]) -> Judgement:
    j = Judgement()
    spec, split, mode = case["spec"], case["split"], case["mode"]
    scripts = [[tuple(r) for r in part] for part in case["scripts"]]
    stack = MaskedStack(spec, split, FIXED_VALUES[0], mode == "nested")
    runs = []
    stack.run(scripts[0])
    runs.append((0, len(stack.answers)))
    if mode == "restart" and stack.error is None:
        # second start() of the SAME optimizer: same free value as the last request, another value of the fixed variable
        stack.run(scripts[1], start=[FREE_POINTS[scripts[0][-1][-1]], FIXED_VALUES[1]])
        runs.append((runs[0][1], len(stack.answers)))
    j.transitions = sum(len(part) for part in scripts)
    j.outcome = f"masked:{mode}:spec={spec}:split={split}"
    if stack.error is not None:
        j.fail(f"masked:request-raised:{stack.error.split(':')[0]}", error=stack.error, scripts=scripts)
        return j
    flat = [r for part in scripts[: len(runs)] for r in part]
    bounds = stack.calls_before + [len(stack.evaluator.calls)]
    for index, (request, answer) in enumerate(zip(flat, stack.answers)):
        made = bounds[index + 1] - bounds[index]
        first_of_second_run = len(runs) > 1 and index == runs[1][0]
        if made == 0:
            if first_of_second_run:
                j.fail("masked:first-request-after-restart-served-without-evaluation", request=request, scripts=scripts)
            continue  # served from what was computed earlier in this run: judged by the unmasked layers
        # the evaluation that produced the requested kind of quantity, and the fixed value in force when it was made
        wants_gradient = request[0] in ("g", "j")
        producing = [k for k in range(bounds[index], bounds[index + 1])
                     if (stack.evaluator.calls[k].perturbations is not None and np.any(stack.evaluator.calls[k].perturbations >= 0)) == wants_gradient
                     or (not wants_gradient and stack.evaluator.calls[k].perturbations is not None and np.any(stack.evaluator.calls[k].perturbations < 0))]
        if not producing:
            continue  # the quantity itself was served from an earlier evaluation of this run
        y = stack.y_at_call[producing[-1] if wants_gradient else producing[0]]
        expected = fresh_masked(request, y)
        if isinstance(expected, tuple) and expected and expected[0] == "error":
            j.fail("masked:fresh-stack-raised", request=request, error=expected[1])
            continue
        if not close(answer, expected, 1e-12):
            kind = {"f": "objective", "g": "gradient", "c": "constraint", "j": "jacobian"}[request[0]]
            j.fail(f"masked:{mode}:stale-or-wrong-{kind}", index=index, request=request, fixed_value=y, observed=answer, expected=expected, scripts=scripts)
    return j


_FRESH: dict[Any, Any] = {}


def fresh_value(method: str, conset: str, request: Any, parallel: bool, failing: bool = False) -> Any:
    key = (method, conset, repr(request), parallel, failing)
    if key not in _FRESH and method == "differential_evolution" and not isinstance(request[1], str):
        # a batch request: the reference is assembled column by column from fresh SCALAR requests (so that the
        # batch layout itself is not part of the oracle)
        columns = [fresh_value(method, conset, (request[0], pt), False, failing) for pt in request[1]]
        if any(isinstance(c, tuple) for c in columns):
            _FRESH[key] = next(c for c in columns if isinstance(c, tuple))
        else:
            _FRESH[key] = np.stack([np.asarray(c) for c in columns], axis=-1)
    if key not in _FRESH:
        stack = Stack(method, conset, False, False, parallel, failing=failing).run([request])
        _FRESH[key] = stack.answers[0] if stack.error is None and stack.answers else ("error", stack.error)
    return _FRESH[key]


def request_alphabet(method: str, conset: str) -> list[Any]:
    k = {"none": 0, "nl": 2, "nl+lin": 3, "lin": 1, "nl2+lin": 5}[conset]
    out: list[Any] = []
    for pt in ("A", "B", "C"):
        out.append(("f", pt))
        if method == "slsqp":
            out.append(("g", pt))
        for row in range(k):
            out.append(("c", row, pt))
            if method == "slsqp":
                out.append(("j", row, pt))
    return out


DE_SCALAR = [("f", "A"), ("f", "B"), ("f", "C"), ("C", "A"), ("C", "B"), ("C", "C")]
DE_BATCH = [(kind, pts) for kind in ("f", "C") for pts in (("A", "B"), ("A", "B", "C"), ("A", "C"), ("B", "A"), ("C", "A", "B"))]


def point_key(request: Any) -> Any:
    return request[-1] if isinstance(request[-1], (str, tuple)) else request[1]


def judge(case: dict[str, Any]) -> Judgement:
    j = Judgement()
    method, conset, spec, split = case["method"], case["conset"], case["spec"], case["split"]
    parallel = case.get("parallel", False)
    script = [tuple(tuple(x) if isinstance(x, list) else x for x in r) for r in case["script"]]
    failing = bool(case.get("failing"))
    stack = Stack(method, conset, spec, split, parallel, bool(case.get("spelled")), failing).run(script)
    j.transitions = len(script)
    j.outcome = f"{method}:{conset}:spec={spec}:split={split}:len={len(script)}" + (":failing-perturbation" if failing else "")
    if stack.error is not None:
        j.fail(f"request-raised:{stack.error.split(':')[0]}", error=stack.error, script=script)
        return j
    for index, (request, answer) in enumerate(zip(script, stack.answers)):
        expected = fresh_value(method, conset, request, parallel, failing)
        if isinstance(expected, tuple) and expected and expected[0] == "error":
            j.fail("fresh-stack-raised", request=request, error=expected[1])
            continue
        if not close(answer, expected, 1e-12):
            first_at_point = index == 0 or point_key(script[index - 1]) != point_key(request)
            kind = {"f": "objective", "g": "gradient", "c": "constraint", "j": "jacobian", "C": "constraint"}[request[0]]
            sig = f"stale-or-wrong-{kind}" + (":first-request-at-new-point" if first_at_point and index > 0 else "")
            j.fail(sig, index=index, request=request, observed=answer, expected=expected, script=script,
                   spec=spec, split=split)
    # ---- evaluator log rules
    evals = stack.evaluations()
    gradient_free = method in ("cobyla", "differential_evolution")
    if gradient_free and any(g for _, _, g in evals):
        j.fail("gradient-evaluation-for-gradient-free-method" + (":speculative" if spec else ""), script=script)
    if split and any(f and g for _, f, g in evals):
        j.fail("combined-evaluation-with-split_evaluations", script=script)
    # per visit of a point: at most one function and one gradient evaluation
    visits: list[list[Any]] = []
    for request in script:
        if visits and point_key(visits[-1][0]) == point_key(request):
            visits[-1].append(request)
        else:
            visits.append([request])
    max_f = len(visits)
    max_g = len(visits)
    n_f = sum(1 for _, f, _ in evals if f)
    n_g = sum(1 for _, _, g in evals if g)
    if n_f > max_f or n_g > max_g:
        j.fail("quantity-evaluated-again-at-the-same-point", functions=n_f, gradients=n_g, visits=len(visits), script=script)
    if not spec:
        # without speculative: no gradient evaluation for a visit that never asked for a gradient / Jacobian
        # (function values are legitimately needed by a gradient evaluation at a new point, so they are not judged)
        need_g = sum(1 for v in visits if any(r[0] in ("g", "j") for r in v))
        if n_g > need_g:
            j.fail("unrequested-gradient-evaluation-without-speculative", gradients=n_g, need_g=need_g, script=script)
    return j


def shards(tier: str, seed: int) -> list[dict[str, Any]]:
    depth = 3 if tier == "quick" else 4
    out = []
    for method in ("slsqp", "cobyla"):
        for conset in CONSETS:
            alphabet = request_alphabet(method, conset)
            d = depth + 1 if conset == "none" or (method == "cobyla" and conset == "nl" and tier == "thorough") else depth
            for spec in (False, True):
                for split in (False, True):
                    for first in range(len(alphabet)):
                        out.append({"method": method, "conset": conset, "spec": spec, "split": split, "depth": d, "first": first})
    # the same, with the method given as "<Plug-in>/<Method>" in mixed case (names are case-insensitive), depth 2
    for method in ("slsqp", "cobyla"):
        alphabet = request_alphabet(method, "nl")
        for spec in (False, True):
            for first in range(len(alphabet)):
                out.append({"method": method, "conset": "nl", "spec": spec, "split": False, "depth": 2, "first": first, "spelled": True})
    for spec in (False, True):
        for first in range(len(DE_SCALAR)):
            out.append({"method": "differential_evolution", "conset": "nl+lin", "spec": spec, "split": False, "depth": 2, "first": first,
                        "parallel": False, "spelled": True})
    # two non-linear constraints handed to the population method (the layout of vectorized constraint values matters)
    for first in range(len(DE_BATCH)):
        out.append({"method": "differential_evolution", "conset": "nl2+lin", "spec": False, "split": False, "depth": 2 if tier == "quick" else 3,
                    "first": first, "parallel": True})
    for first in range(len(DE_SCALAR)):
        out.append({"method": "differential_evolution", "conset": "nl2+lin", "spec": False, "split": False, "depth": 2, "first": first,
                    "parallel": False})
    # a realization that always loses one perturbation (fails for gradients only): the values returned for a point must
    # still not depend on which callable is invoked first, nor on speculative / split_evaluations
    alphabet = request_alphabet("slsqp", "nl")
    for spec in (False, True):
        for split in (False, True):
            for first in range(len(alphabet)):
                out.append({"method": "slsqp", "conset": "nl", "spec": spec, "split": split, "depth": depth - 1, "first": first, "failing": True})
    # a fixed variable that changes between requests: by a second start() of the same optimizer, or at every call-back
    # (nested optimization)
    for spec in (False, True):
        for split in (False, True):
            for mode in ("restart", "nested"):
                out.append({"kind": "masked", "mode": mode, "spec": spec, "split": split, "depth": 2 if tier == "quick" else 3})
    for spec in (False, True):
        for split in (False, True):
            for first in range(len(DE_SCALAR)):
                out.append({"method": "differential_evolution", "conset": "nl+lin", "spec": spec, "split": split, "depth": depth + 1,
                            "first": first, "parallel": False})
            for first in range(len(DE_BATCH)):
                out.append({"method": "differential_evolution", "conset": "nl+lin", "spec": spec, "split": split, "depth": depth,
                            "first": first, "parallel": True})
    return out


def run_shard(shard: dict[str, Any]) -> core.ShardResult:
    rec = Recorder(shard)
    if shard.get("kind") == "masked":
        alphabet = [r for r in request_alphabet("slsqp", "nl") if r[-1] in ("A", "C") and (len(r) == 2 or r[1] == 0)]
        sequences = [list(seq) for n in range(1, shard["depth"] + 1) for seq in itertools.product(alphabet, repeat=n)]
        second = [list(seq) for n in range(1, 3) for seq in itertools.product(alphabet, repeat=n)] if shard["mode"] == "restart" else [[]]
        for seq in sequences:
            for seq2 in (second if len(seq) <= 2 else second[: len(alphabet)]):
                case = {"kind": "masked", "mode": shard["mode"], "spec": shard["spec"], "split": shard["split"],
                        "scripts": [[list(r) for r in seq], [list(r) for r in seq2]]}
                rec.add(("masked", shard["mode"], shard["spec"], shard["split"], tuple(seq), tuple(seq2)), case, judge_masked(case))
        return rec.finish()
    method, conset = shard["method"], shard["conset"]
    parallel = shard.get("parallel", False)
    if method == "differential_evolution":
        alphabet = DE_BATCH if parallel else DE_SCALAR
    else:
        alphabet = request_alphabet(method, conset)
    first = alphabet[shard["first"]]
    for n in range(shard["depth"]):
        for rest in itertools.product(alphabet, repeat=n):
            script = [first, *rest]
            case = {"method": method, "conset": conset, "spec": shard["spec"], "split": shard["split"], "parallel": parallel,
                    "script": [list(r) for r in script], "spelled": bool(shard.get("spelled")), "failing": bool(shard.get("failing"))}
            j = judge(case)
            rec.add((method, conset, shard["spec"], shard["split"], parallel, bool(shard.get("spelled")), bool(shard.get("failing")),
                     tuple(script)), case, j)
    return rec.finish()


def run_case(case: dict[str, Any]) -> Judgement:
    if case.get("kind") == "masked":
        return judge_masked(case)
    return judge(case)


if __name__ == "__main__":
    sys.exit(core.main(sys.modules[__name__]))
