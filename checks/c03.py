"""C03 - failed realizations and perturbations are excluded exactly as if absent."""

from __future__ import annotations

import itertools
import sys
from typing import Any

import numpy as np

from checks import c01, c02
from mc import core, ref
from mc.core import Judgement, Recorder
from mc.harness import AffineEnsemble, TableEvaluator, close, make_manager, validate

PROPERTY = "C03"
RULE = (
    "Fault enumeration (E1/E2) on one function evaluation combined with / followed by one gradient evaluation: EVERY subset "
    "of the R + R*P cells (realization, unperturbed | perturbation k) fails, for (R,P) up to (3,3) [quick: up to (3,2)], x the "
    "column carrying the NaN (objective 0 / objective 1 / constraint 0) x every realization_min_success 0..R x every "
    "perturbation_min_success 1..P x realization weights {1..R, with a zero, one dominant weight next to 1e-9} x filter {none, sort, cvar} x estimator map {mean, stddev on objective 1, stddev on objective 0} x "
    "per-realization / merged gradient estimation x combined / split evaluation. Oracle: failed flags formula; functions/gradients None iff successes < threshold and the "
    "same evaluation inside an optimizer step ends with TOO_FEW_REALIZATIONS; values equal the reference on the survivors, "
    "the REAL code on the reduced ensemble (differential, for functions and - when the survivors lost no perturbation - for gradients, merged included), and the least-squares fit over the surviving perturbations for per-realization gradients. "
    "Within a shard all cases with the same configuration REUSE one EnsembleEvaluator (each case starts from the state the "
    "previous failure patterns left behind; a violation that needs that history is replayed by re-running the shard). "
    "Plus: functions at a point, then a gradient-only request at a point that differs in a FIXED variable only, with a realization failing at one of the two points only: flags and gradient must equal those of a fresh evaluator. Single instances beyond the alphabet: infinite values are not failures; 20 realizations with a sort / CVaR filter and each single failure against the real code on the 19 others. Trivial: nothing judged (abort by filter/estimator, which C14 judges)."
)
ASSUMPTIONS = [
    "affine objective 0 and quadratic objective 1 / constraint with dyadic coefficients; deterministic design sampler; "
    "tolerance 1e-9 (functions) / 1e-7 (gradients); gradient reference = least squares over the surviving perturbations",
    "gradient values only judged under the C02 conditioning precondition on the surviving rows; flags and None-ness always",
]
BOUNDS = {
    "quick": "(R,P) in {(1,1),(1,2),(2,1),(2,2),(3,1),(3,2)} all subsets",
    "thorough": "(R,P) up to (3,3): all 2^12 subsets",
}
FILTERS = ["none", "sort", "cvar"]
EMAPS = [(0, 0, 0), (0, 1, 0), (1, 0, 0)]


def shape_v(P: int) -> int:
    return 1 if P <= 2 else 2


def build_config(R: int, P: int, rms: int, pms: int, flt: str, emap: tuple[int, ...], weights: list[float] | None = None,
                 window: tuple[int, int] | None = None, merge: bool = False) -> dict[str, Any]:
    V = shape_v(P)
    # no zero rows, any two rows independent and well conditioned
    design = [[0.5], [-0.25], [0.75]][:P] if V == 1 else [[0.5, 0.0], [0.0, -0.5], [0.5, 0.75]][:P]
    config: dict[str, Any] = {
        "variables": {"initial_values": [0.25, -0.5][:V]},
        "realizations": {"weights": weights if weights is not None else [float(i + 1) for i in range(R)], "realization_min_success": rms},
        "objectives": {"weights": [1.0, 3.0], "function_estimators": list(emap[:2])},
        "nonlinear_constraints": {"lower_bounds": [0.0], "upper_bounds": [np.inf], "function_estimators": [emap[2]]},
        "function_estimators": [{"method": "mean"}] if merge else [{"method": "mean"}, {"method": "stddev"}],
        "gradient": {"number_of_perturbations": P, "perturbation_min_success": pms, "perturbation_magnitudes": 0.5,
                     "merge_realizations": merge},
        "samplers": [{"method": "verif/design", "options": {"design": design}, "shared": True}],
    }
    if flt != "none":
        first, last = window if window is not None else (0, max(0, R - 2))
        method = (
            {"method": "sort-objective", "options": {"sort": [0], "first": first, "last": last}}
            if flt == "sort"
            else {"method": "cvar-objective", "options": {"sort": [0], "percentile": 0.5}}
        )
        config["realization_filters"] = [method]
        config["objectives"]["realization_filters"] = [0, -1]
        config["nonlinear_constraints"]["realization_filters"] = [0]
    return config


def fmap_of(flt: str) -> tuple[int, ...]:
    return (-1, -1, -1) if flt == "none" else (0, -1, 0)


def judge(case: dict[str, Any], shared: dict[Any, Any] | None = None) -> Judgement:
    """`shared`: per-shard store of evaluators that are REUSED by all cases with the same configuration, so that every
    case (except the first of its configuration) starts from a non-initial state; `None` = a fresh evaluator."""
    from ropt.ensemble_evaluator import EnsembleEvaluator
    from ropt.enums import OptimizerExitCode
    from ropt.exceptions import OptimizationAborted
    from ropt.plan import OptimizerContext, Plan
    from ropt.plugins.realization_filter.default import DefaultRealizationFilter

    j = Judgement()
    R, P, rms, pms, flt = case["R"], case["P"], case["rms"], case["pms"], case["filter"]
    emap = EMAPS[case["emap"]]
    fmap = fmap_of(flt)
    subset, nan_col, split = case["subset"], case["nan_col"], case["split"]
    V = shape_v(P)
    merge = bool(case.get("merge"))
    wkind = case.get("weights", "ramp")
    if wkind == "tiny":
        # one realization carries practically all the weight: when it fails the others are renormalized all the same
        full_weights = [1.0] + [1e-9] * (R - 1)
    else:
        full_weights = [float(i + 1) for i in range(R)] if wkind == "ramp" else [0.0 if i == 0 else float(i) for i in range(R)]
    config = validate(build_config(R, P, rms, pms, flt, emap, weights=full_weights, merge=merge))
    base_fn = c02.ensemble(R, V, "distinct", case["seed"])
    # objective 0 stays affine (the filters rank on it); objective 1 and the constraint get a quadratic term so that a
    # failed perturbation that is NOT removed from the least-squares system changes the estimate
    ens_fn = AffineEnsemble(base_fn.slopes, base_fn.offsets, quad=[0.0, 0.5, -0.25])

    def cell_fails(r: int, p: int) -> bool:
        bit = r if p < 0 else R + r * P + p
        return bool((subset >> bit) & 1)

    manager, scripted = make_manager()
    x = np.array(config.variables.initial_values)
    key = (R, P, rms, pms, flt, case["emap"], merge, wkind)
    if shared is not None and key in shared:
        ens, state = shared[key]
    else:
        state = {}

        def fail(call: int, row: int, r: int, p: int, state: dict[str, Any] = state) -> Any:
            bit = r if p < 0 else R + r * P + p
            return [state["nan_col"]] if (state["subset"] >> bit) & 1 else None

        ens = EnsembleEvaluator(config, None, TableEvaluator(ens_fn, 2, 1, fail=fail), manager)
        if shared is not None:
            shared[key] = (ens, state)
    state["subset"], state["nan_col"] = subset, nan_col
    aborted = None
    fres = gres = None
    try:
        if split:
            (fres,) = ens.calculate(x, compute_functions=True, compute_gradients=False)
            (gres,) = ens.calculate(x, compute_functions=False, compute_gradients=True)
            j.transitions = 2
        else:
            fres, gres = ens.calculate(x, compute_functions=True, compute_gradients=True)
    except OptimizationAborted as exc:
        aborted = exc.exit_code
    except Exception as exc:  # noqa: BLE001
        aborted = type(exc).__name__

    # ------------------------------------------------------------- reference
    failed_f = np.array([cell_fails(r, -1) for r in range(R)])
    pert_ok = np.array([[not cell_fails(r, k) for k in range(P)] for r in range(R)])
    # thresholds as REQUESTED (clamped to the counts), not as the validated configuration reports them
    failed_g = failed_f | (pert_ok.sum(axis=1) < min(pms, P))
    rms_v = min(rms, R)
    expect_f_none = int(np.count_nonzero(~failed_f)) < rms_v
    expect_g_none = int(np.count_nonzero(~failed_g)) < rms_v
    fvals = np.array([ens_fn(x, r) for r in range(R)])
    refc = c01.reference(config, fvals, failed_f, 2, emap, fmap, rms=rms)
    outcome = f"succ_f={int((~failed_f).sum())}/succ_g={int((~failed_g).sum())}/fnone={expect_f_none}/gnone={expect_g_none}"

    if refc["abort"]:
        # a filter selects nothing / stddev has < 2 positive weights: the evaluation aborts (judged by C14)
        j.trivial = True
        j.outcome = "filter-or-estimator-abort"
        return j
    if aborted is not None and fres is None:
        # Abort or exception with a reference that expects results
        if isinstance(aborted, OptimizerExitCode):
            # split mode: a gradient-side stddev abort can legitimately occur later; only function-side judged here
            if not split:
                # combined: the gradient part may abort (stddev with <2 positive weights after perturbation failures)
                f_std = emap.index(1) if 1 in emap else None
                w_g = None if f_std is None else _weights_for(config, refc, fmap, f_std, failed_g)
                if f_std is not None and (w_g is None or np.count_nonzero(w_g > 0) < 2):
                    j.trivial = True
                    j.outcome = "gradient-estimator-abort"
                    return j
            j.fail(f"unexpected-abort:{aborted.name}", split=split)
        else:
            alive = all(_weights_for(config, refc, fmap, f, failed_g) is not None for f in range(3))
            if alive:
                j.fail(f"unexpected-exception:{aborted}", split=split)
            else:
                j.trivial = True
        j.outcome = "aborted"
        return j
    if fres is None:
        j.trivial = True
        j.outcome = "aborted"
        return j

    # (a) flags
    if not np.array_equal(np.asarray(fres.realizations.failed_realizations), failed_f):
        j.fail("function-failed-flags", observed=fres.realizations.failed_realizations, expected=failed_f)
    if gres is not None and not np.array_equal(np.asarray(gres.realizations.failed_realizations), failed_g):
        j.fail("gradient-failed-flags", observed=gres.realizations.failed_realizations, expected=failed_g)
    # (b)/(c) None-ness
    if (fres.functions is None) != expect_f_none:
        j.fail("functions-none-mismatch", expected_none=expect_f_none)
    if gres is not None and (gres.gradients is None) != expect_g_none:
        j.fail("gradients-none-mismatch", expected_none=expect_g_none)
    judged = 0
    # (b) function values on the survivors
    if fres.functions is not None and not expect_f_none:
        obs = list(np.asarray(fres.functions.objectives)) + list(np.asarray(fres.functions.constraints))
        for f in range(3):
            exp = refc["values"][f]
            if exp is None:
                continue
            judged += 1
            if not close(obs[f], exp, 1e-9):
                j.fail("function-value-not-survivor-estimate", function=f, observed=obs[f], expected=exp)
        # differential: the real code on the reduced ensemble
        keep = np.flatnonzero(~failed_f)
        if 0 < keep.size < R and case.get("differential", True):
            red_weights = [float(np.asarray(config.realizations.weights)[r]) for r in keep]
            window = (0, max(0, R - 2))
            if sum(red_weights) > 0 and (flt != "sort" or window[1] < keep.size):
                red_config = validate(build_config(keep.size, P, min(rms, keep.size), pms, flt, emap, red_weights, window))
                red_fn = AffineEnsemble(ens_fn.slopes[keep], ens_fn.offsets[keep], quad=ens_fn.quad)
                red_ens = EnsembleEvaluator(red_config, None, TableEvaluator(red_fn, 2, 1), manager)
                j.transitions += 1
                try:
                    (red,) = red_ens.calculate(x, compute_functions=True, compute_gradients=False)
                    red_obs = list(np.asarray(red.functions.objectives)) + list(np.asarray(red.functions.constraints))
                    for f in range(3):
                        if refc["values"][f] is None:
                            continue
                        if not close(obs[f], red_obs[f], 1e-9):
                            j.fail("differs-from-reduced-ensemble", function=f, observed=obs[f], reduced=red_obs[f])
                except OptimizationAborted:
                    pass
    # gradients, differential: the real code on the ensemble reduced to the realizations that survive the gradient
    # evaluation (applicable when the survivors lost no perturbation, so the reduced run has the same rows)
    if gres is not None and gres.gradients is not None and not expect_g_none and not split:
        keep_g = np.flatnonzero(~failed_g)
        # with a filter the weights are decided at the function level, so the reduced ensemble is only the same
        # ensemble when the realization already failed there
        same_level = flt == "none" or bool(np.array_equal(failed_g, failed_f))
        if 0 < keep_g.size < R and bool(np.all(pert_ok[keep_g])) and same_level:
            red_weights = [float(np.asarray(config.realizations.weights)[r]) for r in keep_g]
            window = (0, max(0, R - 2))
            if sum(red_weights) > 0 and (flt != "sort" or window[1] < keep_g.size):
                red_config = validate(build_config(keep_g.size, P, min(rms, keep_g.size), pms, flt, emap, red_weights, window, merge=merge))
                red_fn = AffineEnsemble(ens_fn.slopes[keep_g], ens_fn.offsets[keep_g], quad=ens_fn.quad)
                red_ens = EnsembleEvaluator(red_config, None, TableEvaluator(red_fn, 2, 1), manager)
                j.transitions += 1
                try:
                    _, red_g = red_ens.calculate(x, compute_functions=True, compute_gradients=True)
                    if red_g.gradients is not None:
                        pairs = [("objectives", gres.gradients.objectives, red_g.gradients.objectives),
                                 ("constraints", gres.gradients.constraints, red_g.gradients.constraints),
                                 ("weighted_objective", gres.gradients.weighted_objective, red_g.gradients.weighted_objective)]
                        for name, a, b in pairs:
                            if np.all(np.isfinite(np.asarray(b))) and not close(a, b, 1e-7):
                                j.fail("gradient-differs-from-reduced-ensemble" + (":merged" if merge else ""), field=name, observed=a, reduced=b)
                                break
                        judged += 1
                except OptimizationAborted:
                    pass
    # gradients: exact slopes over the surviving realizations / perturbations (per-realization estimation only; the
    # merged estimator is judged by the reduced-ensemble differential above and by C02)
    if gres is not None and gres.gradients is not None and not expect_g_none and not merge:
        delta = np.asarray(gres.evaluations.perturbed_variables) - np.asarray(gres.evaluations.variables)
        gobs = [np.asarray(gres.gradients.objectives)[0], np.asarray(gres.gradients.objectives)[1], np.asarray(gres.gradients.constraints)[0]]
        for f in range(3):
            w = _weights_for(config, refc, fmap, f, failed_g)
            if w is None:
                continue
            active = [r for r in range(R) if w[r] > 0]
            if emap[f] == 1 and len(active) < 2:
                continue
            if not all(c02.well_conditioned(delta[r][pert_ok[r]]) for r in active):
                continue
            # per-realization reference gradient: least squares over the SURVIVING perturbations only
            slopes = np.zeros((R, V))
            for r in active:
                rows = delta[r][pert_ok[r]]
                diffs = np.array([ens_fn(x + d, r)[f] - ens_fn(x, r)[f] for d in rows])
                slopes[r] = np.linalg.lstsq(rows, diffs, rcond=None)[0]
            if emap[f] == 0:
                expected = sum(w[r] * slopes[r] for r in active)
            else:
                vals = np.where(failed_g, 0.0, fvals[:, f])
                sigma = ref.stddev(vals, w)
                if sigma is None or sigma < 1e-6:
                    continue
                m = ref.mean(vals, w)
                abar = sum(w[r] * slopes[r] for r in active)
                n_pos = len(active)
                expected = (n_pos / (n_pos - 1)) / sigma * sum(w[r] * (vals[r] - m) * (slopes[r] - abar) for r in active)
            judged += 1
            if not close(gobs[f], expected, 1e-7):
                j.fail("gradient-not-survivor-gradient", function=f, observed=gobs[f], expected=expected)
    # (c) optimizer step ends with TOO_FEW_REALIZATIONS
    if (expect_f_none or expect_g_none) and case.get("step", True):
        ev2 = TableEvaluator(ens_fn, 2, 1, fail=lambda c, row, r, p: [nan_col] if cell_fails(r, p) else None)
        context = OptimizerContext(evaluator=ev2, plugin_manager=manager)
        plan = Plan(context)
        step = plan.add_step("optimizer")
        cfg = build_config(R, P, rms, pms, flt, emap, weights=full_weights, merge=merge)
        script = [[list(x), True, False], [list(x), False, True]] if split else [[list(x), True, True]]
        cfg["optimizer"] = {"method": "verif/scripted", "options": {"script": script}}
        j.transitions += 1
        try:
            code = plan.run_step(step, config=cfg)
            if code != OptimizerExitCode.TOO_FEW_REALIZATIONS:
                j.fail("step-not-TOO_FEW", observed=code.name)
        except Exception as exc:  # noqa: BLE001
            j.fail(f"step-raised:{type(exc).__name__}")
        judged += 1
    judged += 1  # flags and None-ness are always judged
    j.outcome = outcome
    return j


def _weights_for(config: Any, refc: dict[str, Any], fmap: tuple[int, ...], f: int, failed: np.ndarray) -> np.ndarray | None:
    base = config.realizations.weights if fmap[f] < 0 else refc["fweights"][fmap[f]]
    return ref.norm_weights(base, failed)


def judge_fixed_moved(case: dict[str, Any]) -> Judgement:
    """Functions at a point, then a gradient-only request at a point that differs in a FIXED variable only (what a nested
    optimization produces), with different failures at the two points: the gradient evaluation is judged on its own point."""
    from ropt.ensemble_evaluator import EnsembleEvaluator
    from ropt.exceptions import OptimizationAborted
    from ropt.results import GradientResults

    j = Judgement()
    R, P, fr, rms = case["R"], 2, case["fr"], case["rms"]
    slopes = np.array([[[1.0, -2.0, 0.5]], [[0.5, 1.5, -1.0]], [[-0.75, 0.25, 2.0]]])[:R]
    offsets = np.array([[0.5], [-1.0], [1.25]])[:R]
    fn = AffineEnsemble(slopes, offsets, quad=[0.25])
    config = validate({
        "variables": {"initial_values": [0.3, -0.2, 1.5], "mask": [True, True, False]},
        "realizations": {"weights": [1.0, 2.0, 3.0][:R], "realization_min_success": rms},
        "gradient": {"number_of_perturbations": P, "perturbation_magnitudes": 0.1, "merge_realizations": case["merge"]},
        "samplers": [{"method": "verif/design", "options": {"design": [[1.0, 0.0], [0.0, 1.0]]}, "shared": True}],
    })
    manager, _ = make_manager()
    x_first, x = np.array([0.3, -0.2, 1.5]), np.array([0.3, -0.2, 0.5])
    which = case["which"]  # the realization fails at the first point only, or at the second point only

    def fail(call: int, row: int, r: int, p: int) -> Any:
        at_first = call == 0
        return [0] if r == fr and ((which == "first") == at_first) else None

    used = EnsembleEvaluator(config, None, TableEvaluator(fn, 1, 0, fail=fail), manager)
    fresh = EnsembleEvaluator(config, None, TableEvaluator(fn, 1, 0, fail=(lambda call, row, r, p: [0] if (r == fr and which == "second") else None)), manager)
    out = []
    for ens, prime in ((used, True), (fresh, False)):
        try:
            if prime:
                ens.calculate(x_first, compute_functions=True, compute_gradients=False)
            res = ens.calculate(x, compute_functions=not prime, compute_gradients=True)
            g = next(item for item in res if isinstance(item, GradientResults))
            out.append((None if g.gradients is None else np.asarray(g.gradients.objectives), np.asarray(g.realizations.failed_realizations)))
        except OptimizationAborted as exc:
            out.append(("abort", exc.exit_code.name))
    j.transitions = 3
    j.outcome = f"fixed-moved:{which}:merge={case['merge']}"
    (g_used, f_used), (g_fresh, f_fresh) = out
    if isinstance(g_used, str) or isinstance(g_fresh, str):
        if (g_used, f_used) != (g_fresh, f_fresh) if isinstance(g_used, str) and isinstance(g_fresh, str) else True:
            j.fail("fixed-moved:abort-differs-from-fresh-evaluator", used=str(out[0]), fresh=str(out[1]))
        return j
    if not np.array_equal(f_used, f_fresh):
        j.fail("fixed-moved:failed-flags-kept-from-the-other-point", used=f_used, fresh=f_fresh, which=which)
    if (g_used is None) != (g_fresh is None) or (g_used is not None and not np.allclose(g_used, g_fresh, rtol=1e-9, atol=1e-12, equal_nan=True)):
        j.fail("fixed-moved:gradient-differs-from-fresh-evaluator", used=g_used, fresh=g_fresh, which=which)
    return j


def judge_spot(case: dict[str, Any]) -> Judgement:
    """Single instances beyond the enumerated alphabet: infinite (not NaN) values are not failures; an ensemble of 20
    realizations with a sort / CVaR filter and one failed realization equals the ensemble without it."""
    from ropt.ensemble_evaluator import EnsembleEvaluator
    from ropt.results import FunctionResults, GradientResults

    j = Judgement()
    manager, _ = make_manager()
    j.outcome = f"spot:{case['spot']}"
    j.transitions = 1
    if case["spot"] == "infinite":
        config = validate({
            "variables": {"initial_values": [0.5]},
            "realizations": {"weights": [1.0, 1.0], "realization_min_success": 0},
            "objectives": {"weights": [1.0, 1.0]},
            "gradient": {"number_of_perturbations": 2, "perturbation_magnitudes": 0.1, "perturbation_min_success": 1},
        })

        def fn(x: np.ndarray, r: int) -> list[float]:
            return [np.inf, -np.inf] if r == 1 else [float(x[0]), 2.0 * float(x[0])]

        with np.errstate(all="ignore"):
            results = EnsembleEvaluator(config, None, TableEvaluator(fn, 2, 0), manager).calculate(np.array([0.5]), compute_functions=True, compute_gradients=True)
        for item in results:
            if isinstance(item, (FunctionResults, GradientResults)) and np.any(item.realizations.failed_realizations):
                j.fail("infinite-value-flagged-as-failure", result=type(item).__name__, failed=item.realizations.failed_realizations)
        return j
    R, fr = 20, case["fr"]
    keys = np.array([float((7 * i + 3) % 20) for i in range(R)]) * 0.5 - 2.0
    flt = ({"method": "sort-objective", "options": {"sort": [0], "first": 3, "last": 12}} if case["spot"] == "large-sort"
           else {"method": "cvar-objective", "options": {"sort": [0], "percentile": 0.4}})

    def build(n: int) -> Any:
        return validate({
            "variables": {"initial_values": [0.5]},
            "realizations": {"weights": [1.0] * n, "realization_min_success": 1},
            "objectives": {"weights": [1.0], "realization_filters": [0]},
            "realization_filters": [flt],
        })

    keep = np.array([r for r in range(R) if r != fr])
    full = EnsembleEvaluator(build(R), None, TableEvaluator(lambda x, r: [np.nan if r == fr else keys[r] + float(x[0])], 1, 0), manager)
    reduced = EnsembleEvaluator(build(R - 1), None, TableEvaluator(lambda x, r: [keys[keep[r]] + float(x[0])], 1, 0), manager)
    (a,) = full.calculate(np.array([0.5]), compute_functions=True, compute_gradients=False)
    (b,) = reduced.calculate(np.array([0.5]), compute_functions=True, compute_gradients=False)
    if not close(a.functions.objectives[0], b.functions.objectives[0], 1e-12):
        j.fail(f"large-ensemble:differs-from-reduced-ensemble:{case['spot']}", failed=fr, observed=a.functions.objectives[0], reduced=b.functions.objectives[0])
    return j


def shards(tier: str, seed: int) -> list[dict[str, Any]]:
    shapes = [(1, 1), (1, 2), (2, 1), (2, 2), (3, 1), (3, 2)]
    if tier == "thorough":
        shapes += [(1, 3), (2, 3), (3, 3)]
    out = []
    for R, P in shapes:
        cells = R + R * P
        subsets = list(range(2**cells))
        chunk = max(1, len(subsets) // (1 if cells <= 4 else 8 if cells <= 6 else 32 if cells <= 9 else 128))
        for group in core.chunked(subsets, chunk):
            out.append({"R": R, "P": P, "subsets": [group[0], group[-1] + 1], "tier": tier, "seed": seed})
    out.append({"kind": "fixed-moved", "tier": tier, "seed": seed})
    out.append({"kind": "spot", "tier": tier, "seed": seed})
    return out


def run_shard(shard: dict[str, Any]) -> core.ShardResult:
    rec = Recorder(shard)
    if shard.get("kind") == "spot":
        cases = [{"kind": "spot", "spot": "infinite"}] + [{"kind": "spot", "spot": s, "fr": fr} for s in ("large-sort", "large-cvar") for fr in range(20)]
        for case in cases:
            rec.add(("spot", case["spot"], case.get("fr")), case, judge_spot(case))
        return rec.finish()
    if shard.get("kind") == "fixed-moved":
        for R in (2, 3):
            for fr in range(R):
                for rms in range(0, R + 1):
                    for which in ("first", "second"):
                        for merge in (False, True):
                            case = {"kind": "fixed-moved", "R": R, "fr": fr, "rms": rms, "which": which, "merge": merge}
                            rec.add(("fixed-moved", R, fr, rms, which, merge), case, judge_fixed_moved(case))
        return rec.finish()
    R, P, tier = shard["R"], shard["P"], shard["tier"]
    shared: dict[Any, Any] = {}
    for subset in range(*shard["subsets"]):
        for nan_col in (0, 1, 2):
            if subset == 0 and nan_col:
                continue
            for rms in range(0, R + 1):
                for pms in range(1, P + 1):
                    for flt in FILTERS:
                        if flt != "none" and R == 1:
                            continue
                        for emap, merge in ((0, False), (1, False), (2, False), (0, True)):
                            for split in (False, True):
                                if emap == 2 and (flt != "none" or (tier == "quick" and nan_col == 2)):
                                    continue  # stddev on the FIRST objective (the column failure detection reads): unfiltered
                                if merge and tier == "quick" and (nan_col == 2 or flt == "cvar"):
                                    continue
                                if tier == "quick" and R * (P + 1) >= 9 and (nan_col == 1 or (emap == 1 and flt == "cvar")):
                                    continue  # quick: thin the largest shape (full in thorough)
                                for wkind in (("ramp", "zero", "tiny") if R > 1 and nan_col == 0 and flt == "none" else (("ramp", "zero") if R > 1 and tier == "thorough" else ("ramp",))):
                                  case = {"R": R, "P": P, "subset": subset, "nan_col": nan_col, "rms": rms, "pms": pms, "weights": wkind,
                                        "filter": flt, "emap": emap, "merge": merge, "split": split, "seed": shard["seed"],
                                        "step": nan_col == 0, "differential": not split}
                                  j = judge(case, shared)
                                  rec.add((R, P, subset, nan_col, rms, pms, flt, emap, merge, split, wkind), case, j)
    return rec.finish()


def run_case(case: dict[str, Any]) -> Judgement:
    if case.get("kind") == "fixed-moved":
        return judge_fixed_moved(case)
    if case.get("kind") == "spot":
        return judge_spot(case)
    return judge(case)


if __name__ == "__main__":
    sys.exit(core.main(sys.modules[__name__]))
