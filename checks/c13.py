"""C13 - constraint differences and violations are reported exactly for all bound kinds."""

from __future__ import annotations

import itertools
import sys
from typing import Any

import numpy as np

from mc import core
from mc.core import Judgement, Recorder
from mc.harness import TableEvaluator, close, make_manager, make_transforms, validate

PROPERTY = "C13"
RULE = (
    "E1 product enumeration via a real evaluator step in a Plan with a tracker: per variable (V=2, all 12x12 assignments) "
    "bound kind {both, lower only, upper only, none} x value position {below, at lower, inside, at upper, above}; "
    "linear row 0 kind {eq, lower, upper, two-sided, unbounded} x position (19 settings incl. values outside a bound by a relative 2^-20 and 2^-30, row 1 cycled); non-linear "
    "constraint 0 kind x position (19 settings, constraint 1 cycled); transforms {none, variable+constraint+objective scalers, offsets-only variable scaler, constraint scaler only (thorough: also scales-only and a second set)}; "
    "tracker tolerance {1e-10, None, 0.0, 0.5}. Oracle: IEEE formulas value-lower, value-upper, max(lower-value, value-upper, 0); "
    "bound information present whenever any variable bound is finite; tracker holds the result iff all violations <= tol; for one tolerance the evaluation is repeated with the realization failing: the result without functions still reports exact bound and linear differences. "
    "Beyond the 2x2x2 shape: spot instances with 5 variables, a non-square 3x5 linear matrix, 4 non-linear constraints, 3 weighted realizations and a batch of 3 different points, "
    "kinds/positions rotated through the settings (12 rotations quick / 48 thorough x 3 transform sets), same oracle per row. "
    "Every case is non-trivial."
)
ASSUMPTIONS = [
    "dyadic values; 1e-9 relative tolerance on differences (scalers introduce rounding)",
    "with transforms the tracker tolerance is only judged for tolerances (None, 0.0, 1e-10) where user- and optimizer-domain verdicts coincide",
]
BOUNDS = {"quick": "144 variable settings x 19 linear x 19 non-linear x transforms on/off; + 36 wide spot instances (5 vars, 3x5 linear, 4 non-linear, batch of 3)", "thorough": "same x second transform set x 3 tolerances; + 144 wide spot instances"}

VAR_SETTINGS = []
for kind, positions in (("both", 5), ("lower", 3), ("upper", 3), ("none", 1)):
    for pos in range(positions):
        VAR_SETTINGS.append((kind, pos))
CON_SETTINGS = []
for kind, positions in (("eq", 3), ("lower", 3), ("upper", 3), ("two", 5), ("free", 1), ("lower-near", 1), ("upper-near", 1), ("lower-tiny", 1), ("upper-tiny", 1)):
    for pos in range(positions):
        CON_SETTINGS.append((kind, pos))


def var_case(kind: str, pos: int, idx: int) -> tuple[float, float, float]:
    """-> (x, lb, ub) for a variable."""
    lb, ub = (-1.0 + idx * 0.5, 3.0 + idx)
    if kind == "both":
        x = [lb - 2.0, lb, (lb + ub) / 2 + 0.25, ub, ub + 1.5][pos]
        return x, lb, ub
    if kind == "lower":
        return [lb - 2.0, lb, lb + 1.25][pos], lb, np.inf
    if kind == "upper":
        return [ub + 1.5, ub, ub - 1.25][pos], -np.inf, ub
    return 0.75 - idx, -np.inf, np.inf


def con_bounds(kind: str, pos: int, value: float) -> tuple[float, float]:
    """Bounds placed around a given value so that it sits at the requested position."""
    if kind == "eq":
        target = [value + 2.0, value, value - 1.5][pos]
        return target, target
    if kind == "lower":
        return [value + 2.0, value, value - 1.25][pos], np.inf
    if kind == "upper":
        return -np.inf, [value - 1.5, value, value + 1.25][pos]
    if kind == "two":
        lb = [value + 2.0, value, value - 1.0, value - 4.0, value - 5.5][pos]
        return lb, lb + 4.0
    # the value lies outside a finite bound by a relative 2**-20 only: a small but exact difference and violation
    if kind == "lower-near":
        return value + 2.0**-20 * (1.0 + abs(value)), np.inf
    if kind == "upper-near":
        return -np.inf, value - 2.0**-20 * (1.0 + abs(value))
    # ... and by 2**-30 (about 1e-9, below any absolute "is close" default): still a positive violation, infeasible at 1e-10
    if kind == "lower-tiny":
        return value + 2.0**-30 * (1.0 + abs(value)), np.inf
    if kind == "upper-tiny":
        return -np.inf, value - 2.0**-30 * (1.0 + abs(value))
    return -np.inf, np.inf


def build(case: dict[str, Any]) -> tuple[dict[str, Any], Any, dict[str, Any]]:
    (k0, p0), (k1, p1) = VAR_SETTINGS[case["v0"]], VAR_SETTINGS[case["v1"]]
    x0, lb0, ub0 = var_case(k0, p0, 0)
    x1, lb1, ub1 = var_case(k1, p1, 1)
    x = np.array([x0, x1])
    A = np.array([[1.0, 2.0], [-0.5, 0.25]])
    lin_values = A @ x
    lsets = [CON_SETTINGS[case["lin"]], CON_SETTINGS[(case["lin"] * 7 + 3) % len(CON_SETTINGS)]]
    lin_bounds = [con_bounds(k, p, v) for (k, p), v in zip(lsets, lin_values)]
    nl_values = np.array([0.75, -2.5])
    nsets = [CON_SETTINGS[case["nl"]], CON_SETTINGS[(case["nl"] * 4 + 5) % len(CON_SETTINGS)]]
    nl_bounds = [con_bounds(k, p, v) for (k, p), v in zip(nsets, nl_values)]
    config = {
        "variables": {"initial_values": x.tolist(), "lower_bounds": [lb0, lb1], "upper_bounds": [ub0, ub1]},
        "linear_constraints": {
            "coefficients": A.tolist(),
            "lower_bounds": [b[0] for b in lin_bounds],
            "upper_bounds": [b[1] for b in lin_bounds],
        },
        "nonlinear_constraints": {"lower_bounds": [b[0] for b in nl_bounds], "upper_bounds": [b[1] for b in nl_bounds]},
    }
    transforms = None
    if case["transforms"] == 1:
        transforms = make_transforms(var_scales=[4.0, 0.5], var_offsets=[1.0, -2.0], con_scales=[8.0, 0.25], obj_scales=[2.0])
    elif case["transforms"] == 2:
        transforms = make_transforms(var_scales=[0.125, 2.0], con_scales=[0.5, 16.0])
    elif case["transforms"] == 3:
        transforms = make_transforms(var_offsets=[1.0, -2.0])  # offsets only
    elif case["transforms"] == 4:
        transforms = make_transforms(var_scales=[4.0, 0.5])  # scales only
    elif case["transforms"] == 5:
        transforms = make_transforms(con_scales=[8.0, 0.25])  # a constraint scaler and no variable transform
    truth = {
        "x": x, "vlb": np.array([lb0, lb1]), "vub": np.array([ub0, ub1]),
        "lin": lin_values, "llb": np.array([b[0] for b in lin_bounds]), "lub": np.array([b[1] for b in lin_bounds]),
        "nl": nl_values, "nlb": np.array([b[0] for b in nl_bounds]), "nub": np.array([b[1] for b in nl_bounds]),
    }
    return config, transforms, truth


def violation(value: np.ndarray, lb: np.ndarray, ub: np.ndarray) -> np.ndarray:
    with np.errstate(all="ignore"):
        return np.maximum(np.maximum(lb - value, value - ub), 0.0)


def judge(case: dict[str, Any]) -> Judgement:
    from ropt.enums import EventType
    from ropt.plan import OptimizerContext, Plan

    j = Judgement()
    config, transforms, t = build(case)
    tol = case["tol"]
    manager, _ = make_manager()
    evaluator = TableEvaluator(lambda x, r: [float(x.sum()), t["nl"][0], t["nl"][1]], 1, 2)
    context = OptimizerContext(evaluator=evaluator, plugin_manager=manager)
    events: list[Any] = []
    context.add_observer(EventType.FINISHED_EVALUATION, events.append)
    plan = Plan(context)
    step = plan.add_step("evaluator")
    tracker = plan.add_handler("tracker", what="last", constraint_tolerance=tol, sources={step})
    try:
        plan.run_step(step, config=config, transforms=transforms)
    except Exception as exc:  # noqa: BLE001
        j.fail(f"step-raised:{type(exc).__name__}", message=str(exc)[:200])
        return j
    result = events[0].data["results"][0]
    info = result.constraint_info
    groups = [
        ("bound", t["x"], t["vlb"], t["vub"]),
        ("linear", t["lin"], t["llb"], t["lub"]),
        ("nonlinear", t["nl"], t["nlb"], t["nub"]),
    ]
    all_feasible = True
    for name, value, lb, ub in groups:
        exp_lower, exp_upper, exp_viol = value - lb, value - ub, violation(value, lb, ub)
        if tol is not None and np.any(exp_viol > tol):
            all_feasible = False
        got_lower = None if info is None else getattr(info, f"{name}_lower")
        got_upper = None if info is None else getattr(info, f"{name}_upper")
        got_viol = None if info is None else getattr(info, f"{name}_violation")
        any_finite = bool(np.any(np.isfinite(lb)) or np.any(np.isfinite(ub)))
        if got_lower is None or got_upper is None or got_viol is None:
            if name != "bound" or any_finite:
                mixed = name == "bound" and not (np.all(np.isfinite(lb)) or np.all(np.isfinite(ub)))
                j.fail(f"{name}-info-missing" + (":mixed-infinite-bounds" if mixed else ""), lb=lb, ub=ub, value=value)
            continue
        if not close(got_lower, exp_lower, 1e-9):
            j.fail(f"{name}-lower-diff", observed=got_lower, expected=exp_lower, transforms=case["transforms"])
        if not close(got_upper, exp_upper, 1e-9):
            j.fail(f"{name}-upper-diff", observed=got_upper, expected=exp_upper, transforms=case["transforms"])
        if not close(got_viol, exp_viol, 1e-9):
            j.fail(f"{name}-violation", observed=got_viol, expected=exp_viol, transforms=case["transforms"])
        outside = (value < lb) | (value > ub)
        if np.any(outside & ~(np.asarray(got_viol) > 0)):
            j.fail(f"{name}-outside-finite-bound-without-positive-violation", observed=got_viol, value=value, lb=lb, ub=ub)
    held = plan.get(tracker, "results") is not None
    if held != all_feasible:
        j.fail("tracker-feasibility", held=held, expected=all_feasible, tol=tol)
    if tol == 1e-10:
        # the same evaluation with the realization failing: the result carries no functions, but it is a function result
        # and its bound and linear differences / violations are still reported - exactly
        # (a batch of two copies of the point: the first row fails, the second is the ordinary evaluation)
        failing = TableEvaluator(lambda x, r: [float(x.sum()), t["nl"][0], t["nl"][1]], 1, 2,
                                 fail=lambda call, row, r, p: [0] if row == 0 else None)
        context2 = OptimizerContext(evaluator=failing, plugin_manager=manager)
        events2: list[Any] = []
        context2.add_observer(EventType.FINISHED_EVALUATION, events2.append)
        plan2 = Plan(context2)
        step2 = plan2.add_step("evaluator")
        tracker2 = plan2.add_handler("tracker", what="last", constraint_tolerance=tol, sources={step2})
        tracker3 = plan2.add_handler("tracker", what="best", constraint_tolerance=tol, sources={step2})
        cfg2, transforms2, _ = build(case)
        batch = np.array([t["x"], t["x"]])
        if transforms2 is not None and transforms2.variables is not None:
            batch = transforms2.variables.to_optimizer(batch)
        try:
            plan2.run_step(step2, config=cfg2, transforms=transforms2, variables=batch)
            failed_result = events2[0].data["results"][0]
            # the row after the failed one is judged on its own violations
            for what, handler in (("last", tracker2), ("best", tracker3)):
                if (plan2.get(handler, "results") is not None) != all_feasible:
                    j.fail(f"tracker-feasibility:row-after-a-failed-row:{what}", held=plan2.get(handler, "results") is not None, expected=all_feasible)
        except Exception as exc:  # noqa: BLE001
            j.fail(f"failed-evaluation-step-raised:{type(exc).__name__}", message=str(exc)[:200])
            failed_result = None
        if failed_result is not None and failed_result.functions is None and failed_result.constraint_info is not None:
            info2 = failed_result.constraint_info
            for name, value, lb, ub in groups[:2]:
                got = [getattr(info2, f"{name}_{part}") for part in ("lower", "upper", "violation")]
                if any(item is None for item in got):
                    continue
                expected = [value - lb, value - ub, violation(value, lb, ub)]
                for part, g, e in zip(("lower-diff", "upper-diff", "violation"), got, expected):
                    if not close(g, e, 1e-9):
                        j.fail(f"failed-result:{name}-{part}", observed=g, expected=e, transforms=case["transforms"])
    j.outcome = f"feasible={all_feasible}/v={VAR_SETTINGS[case['v0']][0][0]}{VAR_SETTINGS[case['v1']][0][0]}/t={case['transforms']}"
    return j


WIDE_V, WIDE_L, WIDE_N = 5, 3, 4
WIDE_ROTATIONS = 12


def judge_wide(case: dict[str, Any]) -> Judgement:
    """Spot instances beyond the enumerated 2x2x2 shape: 5 variables, 3 linear rows (a non-square matrix), 4 non-linear
    constraints, 3 realizations, a batch of 3 different points; the kinds and positions are rotated through the settings."""
    from ropt.enums import EventType
    from ropt.plan import OptimizerContext, Plan

    j = Judgement()
    rot, tr = case["rot"], case["transforms"]
    vsets = [VAR_SETTINGS[(rot * 5 + 7 * i) % len(VAR_SETTINGS)] for i in range(WIDE_V)]
    base = [var_case(k, p, i) for i, (k, p) in enumerate(vsets)]
    x0 = np.array([b[0] for b in base])
    vlb, vub = np.array([b[1] for b in base]), np.array([b[2] for b in base])
    points = np.array([x0, x0 + np.array([0.5, -0.25, 1.0, -2.0, 0.125]), x0 - np.array([1.0, 0.5, -0.75, 0.25, 3.0])])
    A = np.array([[1.0, 2.0, 0.0, -1.0, 0.5], [-0.5, 0.25, 4.0, 0.0, 1.0], [0.0, 0.0, 1.5, -2.0, 0.0]])
    lin0 = A @ x0
    lsets = [CON_SETTINGS[(rot * 3 + 5 * i + 1) % len(CON_SETTINGS)] for i in range(WIDE_L)]
    lbnd = [con_bounds(k, p, v) for (k, p), v in zip(lsets, lin0)]
    llb, lub = np.array([b[0] for b in lbnd]), np.array([b[1] for b in lbnd])
    nl0 = np.array([0.75, -2.5, 6.0, -0.125])
    nsets = [CON_SETTINGS[(rot * 4 + 3 * i + 2) % len(CON_SETTINGS)] for i in range(WIDE_N)]
    nbnd = [con_bounds(k, p, v) for (k, p), v in zip(nsets, nl0)]
    nlb, nub = np.array([b[0] for b in nbnd]), np.array([b[1] for b in nbnd])
    weights = [0.5, 0.25, 0.25]

    def fun(x: np.ndarray, r: int) -> list[float]:
        # per-realization values whose weighted mean is exact: nl_k(x) = nl0_k + (k+1)*(x_k - x0_k) + (r-1)*2^-k*[r-dependent part cancels]
        shift = (0.0, 1.0, -1.0)[r]  # weighted mean of the shift: 0.25 - 0.25 = 0
        return [float(x.sum())] + [float(nl0[k] + (k + 1) * (x[k] - x0[k]) + shift * 2.0 ** -k) for k in range(WIDE_N)]

    config = {
        "variables": {"initial_values": x0.tolist(), "lower_bounds": vlb.tolist(), "upper_bounds": vub.tolist()},
        "realizations": {"weights": weights},
        "linear_constraints": {"coefficients": A.tolist(), "lower_bounds": llb.tolist(), "upper_bounds": lub.tolist()},
        "nonlinear_constraints": {"lower_bounds": nlb.tolist(), "upper_bounds": nub.tolist()},
    }
    transforms = None
    if tr == 1:
        transforms = make_transforms(var_scales=[4.0, 0.5, 2.0, 0.25, 8.0], var_offsets=[1.0, -2.0, 0.5, 0.0, -4.0],
                                     con_scales=[8.0, 0.25, 2.0, 0.5], obj_scales=[2.0])
    elif tr == 2:
        transforms = make_transforms(con_scales=[8.0, 0.25, 2.0, 0.5])
    manager, _ = make_manager()
    evaluator = TableEvaluator(fun, 1, WIDE_N)
    context = OptimizerContext(evaluator=evaluator, plugin_manager=manager)
    events: list[Any] = []
    context.add_observer(EventType.FINISHED_EVALUATION, events.append)
    plan = Plan(context)
    step = plan.add_step("evaluator")
    batch = points
    if transforms is not None and transforms.variables is not None:
        batch = transforms.variables.to_optimizer(points)
    try:
        plan.run_step(step, config=config, transforms=transforms, variables=batch)
    except Exception as exc:  # noqa: BLE001
        j.fail(f"wide:step-raised:{type(exc).__name__}", message=str(exc)[:200])
        return j
    results = events[0].data["results"]
    if len(results) != len(points):
        j.fail("wide:result-count", observed=len(results), expected=len(points))
        return j
    for row, (x, result) in enumerate(zip(points, results)):
        info = result.constraint_info
        nl = np.array([nl0[k] + (k + 1) * (x[k] - x0[k]) for k in range(WIDE_N)])
        for name, value, lb, ub in (("bound", x, vlb, vub), ("linear", A @ x, llb, lub), ("nonlinear", nl, nlb, nub)):
            got = [None if info is None else getattr(info, f"{name}_{part}") for part in ("lower", "upper", "violation")]
            any_finite = bool(np.any(np.isfinite(lb)) or np.any(np.isfinite(ub)))
            if any(item is None for item in got):
                if name != "bound" or any_finite:
                    j.fail(f"wide:{name}-info-missing", row=row, lb=lb, ub=ub)
                continue
            expected = [value - lb, value - ub, violation(value, lb, ub)]
            for part, g, e in zip(("lower-diff", "upper-diff", "violation"), got, expected):
                if not close(g, e, 1e-9):
                    j.fail(f"wide:{name}-{part}", row=row, observed=g, expected=e, transforms=tr)
            outside = (value < lb) | (value > ub)
            if np.any(outside & ~(np.asarray(got[2]) > 0)):
                j.fail(f"wide:{name}-outside-finite-bound-without-positive-violation", row=row, observed=got[2], value=value, lb=lb, ub=ub)
    j.outcome = f"wide/rot={rot % 4}/t={tr}"
    return j


def shards(tier: str, seed: int) -> list[dict[str, Any]]:
    return [{"v0": v0, "tier": tier, "seed": seed} for v0 in range(len(VAR_SETTINGS))] + [{"wide": 1, "tier": tier, "seed": seed}]


def run_shard(shard: dict[str, Any]) -> core.ShardResult:
    rec = Recorder(shard)
    thorough = shard["tier"] == "thorough"
    if shard.get("wide"):
        for rot in range(WIDE_ROTATIONS * (4 if thorough else 1)):
            for transforms in (0, 1, 2):
                case = {"wide": 1, "rot": rot, "transforms": transforms}
                rec.add(("wide", rot, transforms), case, judge_wide(case))
        return rec.finish()
    for v1 in range(len(VAR_SETTINGS)):
        for lin in range(len(CON_SETTINGS)):
            for nl in range(len(CON_SETTINGS)):
                for transforms in ((0, 1, 2, 3, 4, 5) if thorough else (0, 1, 3, 5)):
                    tols = [1e-10, None, 0.0] + ([0.5] if transforms == 0 and (thorough or (lin + nl) % 3 == 0) else [])
                    if not thorough:
                        tols = [tols[(lin + nl + v1) % 3]] + tols[3:]
                    for tol in tols:
                        case = {"v0": shard["v0"], "v1": v1, "lin": lin, "nl": nl, "transforms": transforms, "tol": tol}
                        j = judge(case)
                        rec.add((shard["v0"], v1, lin, nl, transforms, tol), case, j)
    return rec.finish()


def run_case(case: dict[str, Any]) -> Judgement:
    return judge_wide(case) if case.get("wide") else judge(case)


if __name__ == "__main__":
    sys.exit(core.main(sys.modules[__name__]))
