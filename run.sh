#!/bin/bash
# usage: run.sh <property id> <quick|thorough> [--replay <file>] [extra args]
# Runs one check against the current working tree of the repository
# (ROPT_SRC, default /repo/src, is put first on PYTHONPATH).
set -u
cd "$(dirname "$0")"
id="$1"; shift
tier="${1:-quick}"; [ $# -gt 0 ] && shift
export ROPT_SRC="${ROPT_SRC:-/repo/src}"
here="$(pwd)"
export PYTHONPATH="$ROPT_SRC:$here${PYTHONPATH:+:$PYTHONPATH}"
export PYTHONHASHSEED=0
export PYTHONDONTWRITEBYTECODE=1
export OMP_NUM_THREADS=1 OPENBLAS_NUM_THREADS=1 MKL_NUM_THREADS=1
export PATH="$here/bin:$PATH"
mod="checks.$(echo "$id" | tr 'A-Z' 'a-z')"
exec /venv/bin/python -m "$mod" --tier "$tier" "$@"
